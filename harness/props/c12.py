"""C12 — get_value(n) is the robustness of the formula bound to n.

Tie: stream `getv`.  Modular specifications with several named assertions / sub-specifications; after
evaluate() (offline) or after every update() (online, pastified online), get_value of every name and of every
input variable is read back and compared with
   * the result of evaluating the formula bound to the name as a stand-alone specification
     (pastified too if the specification was) on the same data — the property oracle, real code;
   * the memo of the Lean mirror `runProgram` (online) — correspondence;
   * the supplied data for input variables.
"""
from .. import common, formula as F, impl, disc, modular as M
from ..common import same_vals
from ..engine import Violation, Ctx

RULE = ("modular specs as in C09 (1-5 named assertions, shared stateful sub-specifications, constants); monitors offd/ond/past; "
        "traces 1..10; every name and every input variable read back after evaluate() / after each update(). distinct by "
        "(spec, data, monitor); non-trivial when some named value is not constant +-inf.")
EXPLANATION = ("theorems: C09_program_refines_trees / C09_program_eq_rho: the memo (`ast.results`) of the dictionary-and-memo "
               "interpreter holds, for every assertion and operator sub-formula, the value of its stand-alone monitor (= rho); "
               "offline the results table is filled by the same visitor as C01 (one entry per node). Correspondence: get_value of "
               "the real monitors vs stand-alone real monitors vs the mirror.")
ASSUMPTIONS = ["names resolve through phi_name_to_node_dict as the parser builds it (validated by this stream)"]

ALLOW = {"offd": F.ALL_DISCRETE_OFFLINE - {"fn", "iffxor"}, "ond": F.PAST_ONLY - {"fn", "iffxor"},
         "past": {"arith", "cmp", "bool", "past", "bpast", "bfuture", "buntil", "bsince", "since", "not", "event"}}


def region_pastified_subspec(case):
    return case["monitor"] == "past"


REGIONS = {"get_value-of-a-sub-specification-after-pastify": region_pastified_subspec}


def check_case(ctx, case, m):
    mon = case["monitor"]
    rep = M.rep_of(case)
    got = M.run_discrete(case, mon, modular=True, read_names=True, pre=case.get("pre"))
    rep["impl"] = got
    rep["pre"] = case.get("pre")
    if case.get("pre"):
        ctx.count("after-reset")
    if got[0] != "ok":
        return Violation("%s monitor: evaluate/update/get_value raised %r: %s" % (mon, got[1:], rep["spec"].replace("\n", " ")),
                         rep, stream="getv"), None
    main, named = got[1]
    names = [nm for nm, _ in case["defs"]]
    if any(disc.nontrivial(named[nm]) for nm in names):
        ctx.nontrivial.add((mon, rep["spec"], tuple((k, tuple(v)) for k, v in sorted(case["data"].items()))))
    # input variables: the data supplied
    for v in case["vars"]:
        if [float(x) for x in named["var:" + v]] != [float(x) for x in case["data"][v]]:
            return Violation("%s monitor: get_value(%r) returns %r, the data supplied is %r" % (mon, v, named["var:" + v], case["data"][v]),
                             rep, stream="getv/input"), None
    for k, nm in enumerate(names):
        alone = M.run_discrete(case, mon, only=nm)
        ctx.evaluations += 1
        if alone[0] != "ok":
            return Violation("stand-alone specification %s = ... raised %r" % (nm, alone[1:]), dict(rep, name=nm, standalone=alone),
                             stream="getv"), None
        want = alone[1][0]
        have = named[nm]
        if not same_vals(have, want):
            i = next((j for j in range(len(want)) if j >= len(have) or common.canon(have[j]) != common.canon(want[j])), len(want))
            return Violation("%s monitor: get_value(%r) at step/sample %d is %r (%d values), the stand-alone specification '%s = %s' gives %r (%d values)"
                             % (mon, nm, i, have[i] if i < len(have) else None, len(have), nm, F.to_text(case["inl"][nm]),
                                want[i] if i < len(want) else None, len(want)),
                             dict(rep, name=nm, standalone=alone), stream="getv"), None
    if mon == "ond" and m is not None and m[0] == "ok":
        for k, nm in enumerate(names):
            mv = [r[k] for r in m[1]]
            if not same_vals(mv, named[nm]):
                if any(x != x for x in named[nm]):
                    continue
                return None, Violation("mirror runProgram value of assertion %r differs from get_value" % nm, rep, failing_input=False,
                                       stream="getv/mirror")
    return None, None


def explore(ctx, rng, count):
    cases = []
    for _ in range(count):
        mon = rng.choice(["offd", "offd", "ond", "ond", "past"])
        c = M.gen_case(rng, ALLOW[mon], mon)
        if rng.random() < 0.3:
            # the object is reused: online a history, reset(), then the trace; offline an evaluate() of another trace first;
            # every name must read like a fresh object's
            c["pre"] = F.gen_trace(rng, c["vars"], rng.randint(1, 6))
        if disc.known_region(ctx, c, REGIONS):
            ctx.skipped_known += 1
            continue
        cases.append(c)
    online = [c for c in cases if c["monitor"] == "ond"]
    ms = dict(zip(map(id, online), M.model_prog(online)))
    for c in cases:
        ctx.evaluations += 1
        ctx.count("monitor:" + c["monitor"])
        ctx.count("names=%d" % len(c["defs"]))
        v, d = check_case(ctx, c, ms.get(id(c)))
        if v is None and d is None:
            ctx.traces_validated += 1
            if len(ctx.samples) < 3 and len(c["defs"]) > 2:
                ctx.sample({"monitor": c["monitor"], "spec": M.spec_text(c), "names": [nm for nm, _ in c["defs"]]})
        if v is not None:
            ctx.violations.append(v)
            if len(ctx.violations) >= 3:
                return
        if d is not None:
            ctx.diffs.append(d)


def replay(ctx, obj):
    if obj.get("monitor") in ("offc", "onc"):
        from .. import dense
        return dense.replay_getvalue(ctx, obj)
    c = M.case_of_rep(obj)
    if obj.get("pre"):
        c["pre"] = {k: [float(x) for x in v] for k, v in obj["pre"].items()}
    m = M.model_prog([c])[0] if c["monitor"] == "ond" else None
    v, d = check_case(Ctx(ctx.id, ctx.tier, ctx.seed), c, m)
    return (v is None), (v.what if v else "get_value agrees with the stand-alone specifications on the replayed case")


def run(ctx):
    explore(ctx, ctx.subrng("getv"), ctx.budget(1200, 8000))
    if not ctx.violations:
        try:
            from .. import dense
            dense.getvalue_stream(ctx)
        except ImportError:
            ctx.notes.append("dense-time get_value stream not available yet")


def search(ctx):
    explore(ctx, ctx.subrng("search"), ctx.budget(600, 3000))
