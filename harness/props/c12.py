"""C12 — get_value(n) is the robustness of the formula bound to n.

Tie: stream `getv`.  Modular specifications with several named assertions / sub-specifications; after
evaluate() (offline) or after every update() (online, pastified online), get_value of every name and of every
input variable is read back and compared with
   * the result of evaluating the formula bound to the name as a stand-alone specification
     (pastified too if the specification was) on the same data — the property oracle, real code;
   * the memo of the Lean mirror `runProgram` (online) — correspondence;
   * the supplied data for input variables.
Stream `twin-units`: two names whose bounds differ only in the unit.  Stream `raise-resume`: online runs (discrete and dense time)
in which update() raises for some samples after other names were evaluated, the caller catches the exception and goes on; every
name and input variable read back after each update() that returned.  Stream `batch-boundary`: dense-time online monitor, 2-4
update() calls whose batches repeat (or not) the boundary sample, names / variables as direct operands of binary operators; every
name against its stand-alone monitor fed the same batches and every variable against the batch, after every update().
"""
from .. import common, formula as F, impl, disc, modular as M
from ..common import same_vals
from ..engine import Violation, Ctx

RULE = ("modular specs as in C09 (1-5 named assertions, shared stateful sub-specifications, constants); monitors offd/ond/past; "
        "traces 1..10; every name and every input variable read back after evaluate() / after each update(). distinct by "
        "(spec, data, monitor); non-trivial when some named value is not constant +-inf. raise-resume: 1-3 names (half of them without "
        "temporal operators, some referring to an earlier one) around an assertion that raises on 1-3 of 3-9 samples (sqrt / ln outside "
        "the domain, division by zero), ond / onc (one or two samples per update). batch-boundary: onc, 1-3 names (not / variable / abs / "
        "comparison / bounded past of x, y or an earlier name) joined by and / or / implies / + / since, 2-4 updates of 1-3 new samples, "
        "60 % of the cases with the boundary sample repeated at the head of the next batch.")
EXPLANATION = ("theorems: C09_program_refines_trees / C09_program_eq_rho: the memo (`ast.results`) of the dictionary-and-memo "
               "interpreter holds, for every assertion and operator sub-formula, the value of its stand-alone monitor (= rho); "
               "offline the results table is filled by the same visitor as C01 (one entry per node). Correspondence: get_value of "
               "the real monitors vs stand-alone real monitors vs the mirror.")
ASSUMPTIONS = ["names resolve through phi_name_to_node_dict as the parser builds it (validated by this stream)"]

ALLOW = {"offd": F.ALL_DISCRETE_OFFLINE - {"fn", "iffxor"}, "ond": F.PAST_ONLY - {"fn", "iffxor"},
         "past": {"arith", "cmp", "bool", "past", "bpast", "bfuture", "buntil", "bsince", "since", "not", "event"}}


def region_pastified_subspec(case):
    return case["monitor"] == "past"


REGIONS = {"get_value-of-a-sub-specification-after-pastify": region_pastified_subspec}


def check_case(ctx, case, m):
    mon = case["monitor"]
    rep = M.rep_of(case)
    got = M.run_discrete(case, mon, modular=True, read_names=True, pre=case.get("pre"))
    rep["impl"] = got
    rep["pre"] = case.get("pre")
    if case.get("pre"):
        ctx.count("after-reset")
    if got[0] != "ok":
        return Violation("%s monitor: evaluate/update/get_value raised %r: %s" % (mon, got[1:], rep["spec"].replace("\n", " ")),
                         rep, stream="getv"), None
    main, named = got[1]
    names = [nm for nm, _ in case["defs"]]
    if any(disc.nontrivial(named[nm]) for nm in names):
        ctx.nontrivial.add((mon, rep["spec"], tuple((k, tuple(v)) for k, v in sorted(case["data"].items()))))
    # input variables: the data supplied
    for v in case["vars"]:
        if [float(x) for x in named["var:" + v]] != [float(x) for x in case["data"][v]]:
            return Violation("%s monitor: get_value(%r) returns %r, the data supplied is %r" % (mon, v, named["var:" + v], case["data"][v]),
                             rep, stream="getv/input"), None
    for k, nm in enumerate(names):
        alone = M.run_discrete(case, mon, only=nm)
        ctx.evaluations += 1
        if alone[0] != "ok":
            return Violation("stand-alone specification %s = ... raised %r" % (nm, alone[1:]), dict(rep, name=nm, standalone=alone),
                             stream="getv"), None
        want = alone[1][0]
        have = named[nm]
        if not same_vals(have, want):
            i = next((j for j in range(len(want)) if j >= len(have) or common.canon(have[j]) != common.canon(want[j])), len(want))
            return Violation("%s monitor: get_value(%r) at step/sample %d is %r (%d values), the stand-alone specification '%s = %s' gives %r (%d values)"
                             % (mon, nm, i, have[i] if i < len(have) else None, len(have), nm, F.to_text(case["inl"][nm]),
                                want[i] if i < len(want) else None, len(want)),
                             dict(rep, name=nm, standalone=alone), stream="getv"), None
    if mon == "ond" and m is not None and m[0] == "ok":
        for k, nm in enumerate(names):
            mv = [r[k] for r in m[1]]
            if not same_vals(mv, named[nm]):
                if any(x != x for x in named[nm]):
                    continue
                return None, Violation("mirror runProgram value of assertion %r differs from get_value" % nm, rep, failing_input=False,
                                       stream="getv/mirror")
    return None, None


def explore(ctx, rng, count):
    cases = []
    for _ in range(count):
        mon = rng.choice(["offd", "offd", "ond", "ond", "past"])
        c = M.gen_case(rng, ALLOW[mon], mon)
        if rng.random() < 0.3:
            # the object is reused: online a history, reset(), then the trace; offline an evaluate() of another trace first;
            # every name must read like a fresh object's
            c["pre"] = F.gen_trace(rng, c["vars"], rng.randint(1, 6))
        if disc.known_region(ctx, c, REGIONS):
            ctx.skipped_known += 1
            continue
        cases.append(c)
    online = [c for c in cases if c["monitor"] == "ond"]
    ms = dict(zip(map(id, online), M.model_prog(online)))
    for c in cases:
        ctx.evaluations += 1
        ctx.count("monitor:" + c["monitor"])
        ctx.count("names=%d" % len(c["defs"]))
        v, d = check_case(ctx, c, ms.get(id(c)))
        if v is None and d is None:
            ctx.traces_validated += 1
            if len(ctx.samples) < 3 and len(c["defs"]) > 2:
                ctx.sample({"monitor": c["monitor"], "spec": M.spec_text(c), "names": [nm for nm, _ in c["defs"]]})
        if v is not None:
            ctx.violations.append(v)
            if len(ctx.violations) >= 3:
                return
        if d is not None:
            ctx.diffs.append(d)


def replay_twin(ctx, obj, prop):
    data, n, fine = obj["data"], obj["n"], obj["unit"]

    def run_spec(text, names, extra):
        def go():
            spec = impl.make_spec("ond", text, ["a", "b"], extra_decl=extra, unit=fine, sampling=(1, fine, 0.1))
            spec.parse()
            outs, vals = [], {nm: [] for nm in names}
            for i in range(n):
                outs.append(spec.update(i, [("a", data["a"][i]), ("b", data["b"][i])]))
                for nm in names:
                    vals[nm].append(spec.get_value(nm))
            return outs, vals
        return impl.guarded(go)
    m = run_spec(obj["spec"], ["p", "q"], ["p", "q"])
    if m[0] != "ok":
        return False, "modular specification raised %r" % (m[1:],)
    if prop == "C12":
        lines = obj["spec"].split("\n")
        for nm, ln in zip(("p", "q"), lines):
            al = run_spec("out = " + ln.split("=", 1)[1].strip().rstrip(";"), [], [])
            if al[0] != "ok" or not common.same_nums(m[1][1][nm], al[1][0]):
                return False, "get_value(%r) returns %r, the stand-alone specification %r" % (nm, m[1][1][nm], al[1:])
        return True, "get_value agrees with the stand-alone specifications"
    i_ = run_spec(obj["inlined"], [], [])
    ok = i_[0] == "ok" and common.same_nums(m[1][0], i_[1][0])
    return ok, ("modular = inlined" if ok else "modular %r, inlined %r" % (m[1][0], i_[1:]))


def replay(ctx, obj):
    if obj.get("kind") == "twin-units":
        return replay_twin(ctx, obj, "C12")
    if obj.get("kind") == "raise-resume":
        return replay_raise_resume(ctx, obj)
    if obj.get("kind") == "batch-boundary":
        return replay_batch_boundary(ctx, obj)
    if obj.get("monitor") in ("offc", "onc"):
        from .. import dense
        return dense.replay_getvalue(ctx, obj)
    c = M.case_of_rep(obj)
    if obj.get("pre"):
        c["pre"] = {k: [float(x) for x in v] for k, v in obj["pre"].items()}
    m = M.model_prog([c])[0] if c["monitor"] == "ond" else None
    v, d = check_case(Ctx(ctx.id, ctx.tier, ctx.seed), c, m)
    return (v is None), (v.what if v else "get_value agrees with the stand-alone specifications on the replayed case")


def twin_units_stream(ctx, rng, count, prop="C12"):
    """Two named bounded past operators over the same operands whose bounds are written with the same numerals and different
    units, in one online specification: `get_value` of each name against the stand-alone specification (C12), and the assertion
    that refers to both against its inlined form (C09).  The online interpreter stores one operator per printed node name."""
    for _ in range(count):
        fine, coarse = rng.choice([("ms", "s"), ("us", "ms"), ("ns", "us")])
        op = rng.choice(["once", "historically", "once", "since"])
        lo = rng.choice(["0", "0", "1" + fine, "1"])
        k = rng.randint(2, 3)
        rhs = "(b >= %s)" % rng.choice(["0.5", "1.0", "2.0"]) if rng.random() < 0.5 else "(b)"

        def app(unit):
            body = "[%s,%d%s]" % (lo, k, unit)
            return "((a) %s%s %s)" % (op, body, rhs) if op == "since" else "(%s%s %s)" % (op, body, rhs)
        # a bound of k coarse units = 1000 k samples; the bounded since of rtamt is quadratic in the bound: one coarse unit and a
        # short trace there
        u2 = coarse if rng.random() < 0.7 else ""
        if op == "since":
            k = 1
        p_txt, q_txt = app(fine), app(u2)
        if p_txt == q_txt:
            continue
        n = rng.randint(3, 4) if op == "since" else rng.randint(5, 9)
        data = {v: [rng.choice([-1.0, 0.0, 1.0, 2.0, 3.0, 5.0]) for _ in range(n)] for v in ("a", "b")}
        comb = rng.choice(["and", "or"])

        def run_spec(text, names, extra):
            def go():
                spec = impl.make_spec("ond", text, ["a", "b"], extra_decl=extra, unit=fine, sampling=(1, fine, 0.1))
                spec.parse()
                outs, vals = [], {nm: [] for nm in names}
                for i in range(n):
                    outs.append(spec.update(i, [("a", data["a"][i]), ("b", data["b"][i])]))
                    for nm in names:
                        vals[nm].append(spec.get_value(nm))
                return outs, vals
            return impl.guarded(go)
        modular_text = "p = %s;\nq = %s;\nout = (p %s (not q))" % (p_txt, q_txt, comb)
        inlined = "out = (%s %s (not %s))" % (p_txt, comb, q_txt)
        ctx.evaluations += 1
        ctx.count("stream:twin-units")
        m = run_spec(modular_text, ["p", "q"], ["p", "q"])
        i_ = run_spec(inlined, [], [])
        alone = {"p": run_spec("out = " + p_txt, [], []), "q": run_spec("out = " + q_txt, [], [])}
        rep = {"kind": "twin-units", "spec": modular_text, "inlined": inlined, "unit": fine, "data": data, "n": n,
               "impl": m, "impl_inlined": i_, "standalone": alone}
        if m[0] != "ok" or i_[0] != "ok" or alone["p"][0] != "ok" or alone["q"][0] != "ok":
            if not (m[0] != "ok" and i_[0] != "ok"):
                ctx.violations.append(Violation("modular / inlined / stand-alone raised %r / %r / %r: %s" % (m[:2], i_[:2], alone["p"][:2],
                                                modular_text.replace("\n", "; ")), rep, stream="twin-units"))
            continue
        bad = None
        if prop == "C12":
            for nm in ("p", "q"):
                if not common.same_nums(m[1][1][nm], alone[nm][1][0]):
                    bad = "get_value(%r) returns %r, the stand-alone specification %r" % (nm, m[1][1][nm], alone[nm][1][0])
                    break
        else:
            if not common.same_nums(m[1][0], i_[1][0]):
                bad = "the modular specification returns %r, its inlined form %r" % (m[1][0], i_[1][0])
        if bad:
            ctx.violations.append(Violation("%s: %s (unit %s, period 1 %s)" % (bad, modular_text.replace("\n", "; "), fine, fine), rep,
                                            stream="twin-units"))
            if len(ctx.violations) >= 3:
                return
        else:
            ctx.traces_validated += 1
            ctx.nontrivial.add((modular_text, str(data)))


# ------------------------------------------------------------------------------------------------- stream `raise-resume`
# An online monitor in a loop that survives a failing sample: one assertion of the specification raises on some samples (sqrt / ln
# of a sample outside the domain, division by zero) after other named assertions were already evaluated for that sample; the caller
# catches the exception and keeps feeding samples.  After every update() that SUCCEEDED every name and every input variable is read
# back.
#   * input variable: the sample just given;
#   * the raising assertion, when the raising operator is the first one that is evaluated (discrete time: when no temporal operator
#     is evaluated before it): nothing of it has seen the failed sample; the stand-alone specification fed with the samples of the
#     successful updates;
#   * discrete time, a name without temporal operators: the value of its formula for the sample just given (= its stand-alone
#     specification, whatever samples that one has seen before);
#   * any other name: what "the same data" is after a failed update() is not said by the property - the samples of the successful
#     updates only, or those of the failed ones too (the name may have been evaluated before the exception).  The stream accepts
#     either reading (one reading per name for the whole run) and nothing else.  (Dense time: every operator drops a sample that
#     repeats its previous output and may hold back its last one, so the LIST that a name returns depends on the previous update
#     even without temporal operators.)  Operators with memory (discrete time: temporal sub-formulas; dense time: every operator)
#     are not shared between the names evaluated before the exception and those after it (one operator per printed name: it would
#     follow both readings).
RR_B_OK = [3.0, 4.0, 5.0, 9.0]
RR_VALUES = [-1.0, 0.0, 0.5, 1.0, 2.0, 3.0, 5.0]


def _rr_stateful(f):
    return any(M.stateful(g) for g in F.subformulas(f))


def _rr_raiser(rng, g, mon):
    """The raising assertion and the values of b on which it raises (on RR_B_OK it never does)."""
    b = ("v", "b")
    kind = rng.choice(["sqrt", "sqrt", "ln", "div", "div"] if mon == "ond" else ["sqrt", "sqrt", "ln"])
    if kind == "div":
        # (dense time: the division keeps the operands it could not divide and raises on every later update: nothing to read back)
        den, bad = (b, [0.0]) if rng.random() < 0.5 else (("b", "sub", b, ("c", 2.0)), [2.0])
        core = ("b", "div", ("v", rng.choice(["a", "c"])), den)
    elif rng.random() < 0.5:
        core, bad = ("u", kind, b), ([-1.0, -0.5] if kind == "sqrt" else [0.0, -1.0])
    else:
        core, bad = ("u", kind, ("b", "sub", b, ("c", 1.0))), ([0.0, -1.0, 0.5] if kind == "sqrt" else [1.0, 0.0, 0.5])
    f = ("b", rng.choice(["ge", "le", "gt"]), core, ("c", rng.choice([0.0, 1.0, 2.0])))
    if rng.random() < 0.3:
        # a predicate evaluated before the raising term (no temporal operator: nothing is kept of the failed sample)
        f = ("b", rng.choice(["and", "or"]), g.formula(0), f)
    if rng.random() < 0.3:
        f = ("tb1", rng.choice(["once", "hist"]), 0, rng.randint(1, 3), f)
    return f, bad


def _rr_memory_ops(f, mon):
    """Texts of the sub-formulas whose operator keeps something from one update to the next."""
    return {F.to_text(x) for x in F.subformulas(f) if (M.stateful(x) if mon == "ond" else x[0] not in ("v", "c"))}


def _rr_first_op(f):
    """The operator that is evaluated first (operands before the operator, left to right)."""
    for c in F.children(f):
        if c[0] not in ("v", "c"):
            return _rr_first_op(c)
    return f


def _rr_raiser_untouched(raiser, mon):
    """Nothing with memory is evaluated in the raising assertion before the exception."""
    if mon == "ond":
        return True         # (as generated: comparisons and arithmetic before it, temporal operators only above it)
    return _rr_first_op(raiser)[:2] in (("u", "sqrt"), ("u", "ln")) and _rr_first_op(raiser)[2] == ("v", "b")


def rr_gen_case(rng):
    mon = rng.choice(["ond", "ond", "onc"])
    vs = rng.choice([["a"], ["a", "c"], ["a", "c", "b"], ["a", "b"]])
    if mon == "ond":
        g = F.Gen(rng, vs, ALLOW["ond"], max_bound=rng.choice([1, 2, 3]))
    else:
        from .. import dense
        g = dense.DGen(rng, vs, dense.DENSE_ON - {"fn", "iffxor"}, max_bound=rng.choice([1, 2, 3]))
    raiser, bad = _rr_raiser(rng, g, mon)
    for _ in range(30):
        k = rng.choice([1, 2, 2, 3])
        pos = rng.choice([j for j in range(k + 1) for _w in range(1 + 3 * (j > 0))])      # mostly after at least one name
        bodies = []
        for j in range(k):
            # every second name or so has no temporal operator
            f = g.formula(rng.choice([0, 1, 1, 2, 3]))
            if rng.random() < 0.4:
                for _t in range(20):
                    if not _rr_stateful(f):
                        break
                    f = g.formula(rng.choice([0, 1, 2]))
            bodies.append(f)
        before = set().union(_rr_memory_ops(raiser, mon), *[_rr_memory_ops(f, mon) for f in bodies[:pos]])
        after = set().union(*[_rr_memory_ops(f, mon) for f in bodies[pos:]])
        if not (before & after):
            break
    else:
        return None
    defs = [("p%d" % j, f) for j, f in enumerate(bodies)]
    # a later name refers to an earlier one without temporal operators (dense time: on the same side of the raising assertion)
    for j in range(1, k):
        if rng.random() < 0.25:
            free = [nm for i, (nm, f) in enumerate(defs[:j]) if not _rr_stateful(f) and not any(x[0] == "v" and x[1].startswith("p") for x in F.subformulas(f))
                    and (mon == "ond" or (i < pos) == (j < pos))]
            if free:
                ref = ("v", rng.choice(free))
                defs[j] = (defs[j][0], ("b", rng.choice(["and", "or"]), defs[j][1], rng.choice([ref, ("u", "not", ref)])))
    defs.insert(pos, ("out", raiser))
    n = rng.randint(3, 9)
    # one to three failing samples, a successful one after the first of them
    first = rng.randint(0, n - 2)
    fail = {first} | {i for i in range(first + 1, n - 1) if rng.random() < 0.25}
    if rng.random() < 0.3:
        fail.add(n - 1)
    data = {v: [rng.choice(RR_VALUES) for _ in range(n)] for v in ("a", "c")}
    data["b"] = [rng.choice(bad) if i in fail else rng.choice(RR_B_OK) for i in range(n)]
    half = None
    if mon == "onc" and rng.random() < 0.3:
        # two samples per update
        half = {"a": [rng.choice(RR_VALUES) for _ in range(n)], "c": [rng.choice(RR_VALUES) for _ in range(n)],
                "b": [rng.choice(RR_B_OK) for _ in range(n)]}
    return {"monitor": mon, "defs": defs, "n": n, "data": data, "half": half}


def _rr_texts(case):
    inl = M.inline(case["defs"])
    lines = ["%s = %s;" % (nm, F.to_text(b)) for nm, b in case["defs"]]
    return inl, lines


def _rr_args(case, i):
    if case["monitor"] == "ond":
        return (i, [(v, case["data"][v][i]) for v in ("a", "b", "c")])
    h = case.get("half")
    return tuple([v, [[i, case["data"][v][i]]] + ([[i + 0.5, h[v][i]]] if h else [])] for v in ("a", "b", "c"))


def _rr_run(case, text, declare, steps, read=()):
    """Feeds the samples of `steps`; an update() that raises is caught and the run goes on.  payload: (steps whose update()
    succeeded, [[step, exception]], what update() returned at those steps, {name: get_value after each of them})."""
    import copy
    from ..common import HarnessError

    def go():
        spec = impl.make_spec(case["monitor"], text, ["a", "b", "c"], extra_decl=declare)
        spec.parse()
        ok, failed, outs, got = [], [], [], {nm: [] for nm in read}
        for i in steps:
            try:
                r = spec.update(*_rr_args(case, i))
            except (impl.CaseTimeout, HarnessError, MemoryError):
                raise
            except Exception as e:  # noqa: BLE001
                failed.append([i, "%s: %s" % (type(e).__name__, str(e)[:80])])
                continue
            ok.append(i)
            outs.append(copy.deepcopy(r))
            for nm in read:
                got[nm].append(copy.deepcopy(spec.get_value(nm)))
        return ok, failed, outs, got
    return impl.guarded(go)


def _rr_same(mon, x, y):
    if mon == "ond":
        return common.canon(x) == common.canon(y)
    try:
        return len(x) == len(y) and all(float(p[0]) == float(q[0]) and common.canon(p[1]) == common.canon(q[1]) for p, q in zip(x, y))
    except (TypeError, IndexError, ValueError):
        return False


def rr_rep(case):
    inl, lines = _rr_texts(case)
    return {"kind": "raise-resume", "monitor": case["monitor"], "defs": [[nm, F.to_proto(b)] for nm, b in case["defs"]], "n": case["n"],
            "data": case["data"], "half": case.get("half"), "spec": "\n".join(lines),
            "calls": "update() per step with a, b, c (dense time: [[step, value]] and, with `half`, [step + 0.5, value]); an update() "
                     "that raises is caught and the next sample is fed; get_value() of every name after every update() that returned"}


def rr_case_of_rep(obj):
    return {"monitor": obj["monitor"], "defs": [(nm, F.from_proto(b)) for nm, b in obj["defs"]], "n": obj["n"],
            "data": {k: [float(x) for x in v] for k, v in obj["data"].items()},
            "half": {k: [float(x) for x in v] for k, v in obj["half"].items()} if obj.get("half") else None}


def rr_check(ctx, case):
    mon, n = case["monitor"], case["n"]
    inl, lines = _rr_texts(case)
    names = [nm for nm, _ in case["defs"]]
    rep = rr_rep(case)
    full = _rr_run(case, "\n".join(lines), [nm for nm in names if nm != "out"], range(n),
                   read=names + sorted({x for nm in names for x in F.variables(inl[nm])}))
    rep["impl"] = full
    if full[0] != "ok":
        return Violation("%s monitor, failing samples caught: parse/update/get_value raised %r: %s" % (mon, full[1:], rep["spec"].replace("\n", " ")),
                         rep, stream="raise-resume")
    ok, failed, _outs, got = full[1]
    if not failed:
        ctx.count("raise-resume:no-update-raised")
    resumed = [i for i in ok if failed and i > failed[0][0]]
    if not resumed:
        ctx.count("raise-resume:no-successful-update-after-the-failed-one")
        return None
    ctx.count("raise-resume:read-back-after-resume", len(resumed))
    used = {x for nm in names for x in F.variables(inl[nm])}
    for v in ("a", "b", "c"):
        if v not in used:
            continue        # (as in the other streams: the input variables that the specification reads)
        for j, i in enumerate(ok):
            want = _rr_args(case, i)[1][("a", "b", "c").index(v)][1] if mon == "ond" else _rr_args(case, i)[("a", "b", "c").index(v)][1]
            have = got[v][j]
            if not (_rr_same(mon, have, want)):
                return Violation("%s monitor, update() raised at step(s) %s and the run went on: after update %d get_value(%r) returns %r, the data supplied is %r: %s"
                                 % (mon, [f_[0] for f_ in failed], i, v, have, want, rep["spec"].replace("\n", " ")), rep, stream="raise-resume/input")
    for nm in names:
        text = "%s = %s" % (nm, F.to_text(inl[nm]))
        decl = [nm] if nm != "out" else []
        readings = [("the samples of the successful updates", ok)]
        if nm == "out":
            if not _rr_raiser_untouched(inl[nm], mon):
                ctx.count("raise-resume:raising-assertion-partly-evaluated-not-compared")
                continue
        elif mon == "onc" or _rr_stateful(inl[nm]):
            readings.append(("all samples", range(n)))
        ctx.count("raise-resume:%s" % ("raising-assertion" if nm == "out" else "temporal-name" if _rr_stateful(inl[nm]) else "memoryless-name"))
        wants = []
        for what, steps in readings:
            alone = _rr_run(case, text, decl, steps)
            ctx.evaluations += 1
            if alone[0] != "ok" or [i for i in ok if i not in alone[1][0]]:
                return Violation("stand-alone specification %s fed with %s raised: %r" % (text, what, alone[1:]), dict(rep, name=nm, standalone=alone),
                                 stream="raise-resume")
            a_ok, _f, a_outs, _g = alone[1]
            wants.append((what, [a_outs[a_ok.index(i)] for i in ok]))
        have = got[nm]
        if not any(all(_rr_same(mon, h_, w_) for h_, w_ in zip(have, w)) for _what, w in wants):
            what, w = wants[0]
            j = next(j for j in range(len(ok)) if not all(_rr_same(mon, have[j], w2[j]) for _x, w2 in wants) or not _rr_same(mon, have[j], w[j]))
            return Violation("%s monitor, update() raised at step(s) %s and the run went on: after update %d get_value(%r) is %r, the stand-alone specification '%s' fed with %s gives %r%s"
                             % (mon, [f_[0] for f_ in failed], ok[j], nm, have[j], text, what, w[j],
                                "".join(" (fed with %s: %r)" % (wh, w2[j]) for wh, w2 in wants[1:])),
                             dict(rep, name=nm, ok_steps=ok, failed=failed, have=have, standalone=[[wh, w2] for wh, w2 in wants]),
                             stream="raise-resume")
    if mon == "ond":
        if any(disc.nontrivial(got[nm]) for nm in names):
            ctx.nontrivial.add((mon, rep["spec"], str(case["data"])))
    else:
        ctx.nontrivial.add((mon, rep["spec"], str(case["data"]), str(case.get("half"))))
    return None


def rr_shrink(ctx, case, budget=40):
    """Greedy: drop names, drop leading / trailing samples, keeping a violation."""
    def fails(c):
        try:
            return rr_check(Ctx(ctx.id, ctx.tier, ctx.seed), c) is not None
        except common.HarnessError:
            return False
    changed = True
    while changed and budget > 0:
        changed = False
        cands = []
        for j, (nm, _b) in enumerate(case["defs"]):
            if nm != "out" and not any(x == ("v", nm) for _n, b in case["defs"] for x in F.subformulas(b)):
                cands.append(dict(case, defs=case["defs"][:j] + case["defs"][j + 1:]))
        if case["n"] > 2:
            cut = lambda lo, hi: dict(case, n=hi - lo, data={k: v[lo:hi] for k, v in case["data"].items()},  # noqa: E731
                                      half={k: v[lo:hi] for k, v in case["half"].items()} if case.get("half") else None)
            cands += [cut(0, case["n"] - 1), cut(1, case["n"])]
        if case.get("half"):
            cands.append(dict(case, half=None))
        for c in cands:
            budget -= 1
            if budget < 0:
                break
            if fails(c):
                case, changed = c, True
                break
    return case


def raise_resume_stream(ctx, rng, count):
    for _ in range(count):
        c = rr_gen_case(rng)
        if c is None:
            continue
        ctx.evaluations += 1
        ctx.count("stream:raise-resume")
        ctx.count("monitor:" + c["monitor"])
        v = rr_check(ctx, c)
        if v is None:
            ctx.traces_validated += 1
            continue
        small = rr_shrink(ctx, c)
        v = rr_check(ctx, small) or v
        ctx.violations.append(v)
        if len(ctx.violations) >= 3:
            return


def replay_raise_resume(ctx, obj):
    v = rr_check(Ctx(ctx.id, ctx.tier, ctx.seed), rr_case_of_rep(obj))
    return (v is None), (v.what if v else "after the failed update() get_value agrees with the stand-alone specifications")

# ------------------------------------------------------------------------------------------------- stream `batch-boundary`
# Dense-time ONLINE monitor fed by several update() calls (the shared dense get_value stream makes one update() only).  Half of
# the cases REPEAT the boundary sample: a batch starts with the last sample (same time, same value) of the previous one, which is
# legal and yields the same results as not repeating it.  The names (and input variables) are direct operands of binary
# operators, several of them of operators that hand their operand's list on without de-duplicating it (`not`, a variable).  After
# EVERY update() every name is read back and compared with the stand-alone monitor of that name fed the same batches, every input
# variable with the batch supplied.
BB_OPERANDS = ["not(%s)", "not(%s)", "%s", "abs(%s)", "(%s >= 1.0)", "(%s + 1.0)", "once[0,1](%s)", "historically[0,2](%s)", "-(%s)"]
BB_BIN = ["and", "and", "and", "or", "implies", "+", "since"]


def bb_gen_case(rng):
    vs = ["x", "y"]
    k = rng.randint(1, 3)
    defs, pool = [], []
    for i in range(k):
        nm = "abc"[i]
        src = rng.choice(vs + pool) if rng.random() < 0.25 and pool else rng.choice(vs)
        t = rng.choice(BB_OPERANDS)
        if t == "%s":
            t = "(%s)"
        defs.append((nm, t % src))
        pool.append(nm)
    cand = pool + vs
    l = rng.choice(pool)
    r = rng.choice([c for c in cand if c != l])
    if rng.random() < 0.5:
        l, r = r, l
    top = "(%s) %s (%s)" % (l, rng.choice(BB_BIN), r)
    if rng.random() < 0.3:
        defs.append(("d", top))
        top = "(d) %s (%s)" % (rng.choice(["and", "or"]), rng.choice(cand))
    defs.append(("out", top))
    # the batches: strictly increasing times; `repeat`: each batch but the first starts with the last sample of the previous one
    repeat = rng.random() < 0.6
    n = rng.randint(2, 4)
    step = rng.choice([1.0, 1.0, 0.5])
    t, last, batches = 0.0, None, []
    for b in range(n):
        m = rng.randint(1, 3)
        bx, by = [], []
        if last is not None and (repeat and rng.random() < 0.85):
            bx.append([last[0], last[1]])
            by.append([last[0], last[2]])
        for _ in range(m + (1 if b == 0 else 0)):
            x, y = (rng.choice([-2.0, -1.0, 0.0, 0.5, 1.0, 2.0, 3.0, 5.0]) for _ in "xy")
            bx.append([t, x])
            by.append([t, y])
            last = (t, x, y)
            t += step * rng.randint(1, 2)
        batches.append({"x": bx, "y": by})
    return {"defs": defs, "vars": vs, "batches": batches, "repeat": repeat}


def bb_rep(case):
    return {"kind": "batch-boundary", "monitor": "onc", "defs": [list(d) for d in case["defs"]], "vars": case["vars"],
            "batches": case["batches"], "spec": "; ".join("%s = %s" % (nm, b) for nm, b in case["defs"])}


def _bb_inline(defs, nm):
    """the formula bound to `nm`, the names it refers to replaced by their (parenthesised) formulas"""
    import re
    done = {}
    for n_, body in defs:
        done[n_] = re.sub(r"\b([abcd])\b", lambda mo: "(" + done[mo.group(1)] + ")", body)
    return done[nm]


def _bb_run(case, text, declare, read_names, read_vars):
    def go():
        spec = impl.make_spec("onc", text, case["vars"], extra_decl=declare)
        spec.parse()
        steps = []
        for b in case["batches"]:
            res = spec.update(*[[v, [list(s) for s in b[v]]] for v in case["vars"]])
            got = {nm: [list(s) for s in spec.get_value(nm)] for nm in read_names}
            got.update({"var:" + v: [list(s) for s in spec.get_value(v)] for v in read_vars})
            steps.append(([list(s) for s in res], got))
        return steps
    return impl.guarded(go)


def bb_check(ctx, case):
    rep = bb_rep(case)
    names = [nm for nm, _ in case["defs"]]
    text = "\n".join("%s = %s;" % d for d in case["defs"])
    import re
    used = [v for v in case["vars"] if any(re.search(r"\b%s\b" % v, b) for _, b in case["defs"])]
    got = _bb_run(case, text, names[:-1], names, used)
    rep["impl"] = got
    if got[0] != "ok":
        return Violation("dense onc, several updates: update/get_value raised %r: %s" % (got[1:], rep["spec"]), rep, stream="batch-boundary")
    for i, (_, g) in enumerate(got[1]):
        for v in used:
            want = [[float(t), float(x)] for t, x in case["batches"][i][v]]
            have = [[float(t), float(x)] for t, x in g["var:" + v]]
            if have != want:
                return Violation("dense onc: after update %d get_value(%r) returns %r, the batch supplied is %r: %s"
                                 % (i, v, have, want, rep["spec"]), dict(rep, update=i), stream="batch-boundary/input")
    for nm in names:
        alone = _bb_run(case, "out = %s" % _bb_inline(case["defs"], nm), [], [], [])
        ctx.evaluations += 1
        if alone[0] != "ok":
            return Violation("stand-alone specification %s = ... raised %r" % (nm, alone[1:]), dict(rep, name=nm, standalone=alone),
                             stream="batch-boundary")
        for i, (_, g) in enumerate(got[1]):
            want = alone[1][i][0]
            if not (len(g[nm]) == len(want) and all(common.same_nums(p, q) for p, q in zip(g[nm], want))):
                return Violation("dense onc: after update %d get_value(%r) returns %r, the stand-alone specification 'out = %s' fed the same "
                                 "batches returns %r: %s" % (i, nm, g[nm], _bb_inline(case["defs"], nm), want, rep["spec"]),
                                 dict(rep, name=nm, update=i, standalone=alone), stream="batch-boundary")
    ctx.nontrivial.add(("bb", rep["spec"], str(case["batches"])))
    return None


def bb_shrink(ctx, case):
    """fewer updates (from the end, then from the front) while the case still fails"""
    fails = lambda c: bb_check(Ctx(ctx.id, ctx.tier, ctx.seed), c) is not None
    cur = case
    while len(cur["batches"]) > 1:
        for cand in (dict(cur, batches=cur["batches"][:-1]), dict(cur, batches=cur["batches"][1:])):
            if fails(cand):
                cur = cand
                break
        else:
            break
    return cur


def batch_boundary_stream(ctx, rng, count):
    for _ in range(count):
        c = bb_gen_case(rng)
        ctx.evaluations += 1
        ctx.count("stream:batch-boundary")
        ctx.count("batch-boundary:" + ("boundary-sample-repeated" if c["repeat"] else "disjoint-batches"))
        v = bb_check(ctx, c)
        if v is None:
            ctx.traces_validated += 1
            continue
        v = bb_check(ctx, bb_shrink(ctx, c)) or v
        ctx.violations.append(v)
        if len(ctx.violations) >= 3:
            return


def replay_batch_boundary(ctx, obj):
    c = {"defs": [tuple(d) for d in obj["defs"]], "vars": obj["vars"], "batches": obj["batches"], "repeat": True}
    v = bb_check(Ctx(ctx.id, ctx.tier, ctx.seed), c)
    return (v is None), (v.what if v else "after every update() get_value agrees with the stand-alone specifications and the batches")


def run(ctx):
    explore(ctx, ctx.subrng("getv"), ctx.budget(1200, 8000))
    if not ctx.violations:
        twin_units_stream(ctx, ctx.subrng("twin-units"), ctx.budget(40, 300))
    if not ctx.violations:
        raise_resume_stream(ctx, ctx.subrng("raise-resume"), ctx.budget(250, 1500))
    if not ctx.violations:
        batch_boundary_stream(ctx, ctx.subrng("batch-boundary"), ctx.budget(120, 1000))
    if not ctx.violations:
        try:
            from .. import dense
            dense.getvalue_stream(ctx)
        except ImportError:
            ctx.notes.append("dense-time get_value stream not available yet")


def search(ctx):
    explore(ctx, ctx.subrng("search"), ctx.budget(600, 3000))
