"""C12 — get_value(n) is the robustness of the formula bound to n.

Tie: stream `getv`.  Modular specifications with several named assertions / sub-specifications; after
evaluate() (offline) or after every update() (online, pastified online), get_value of every name and of every
input variable is read back and compared with
   * the result of evaluating the formula bound to the name as a stand-alone specification
     (pastified too if the specification was) on the same data — the property oracle, real code;
   * the memo of the Lean mirror `runProgram` (online) — correspondence;
   * the supplied data for input variables.
"""
from .. import common, formula as F, impl, disc, modular as M
from ..common import same_vals
from ..engine import Violation, Ctx

RULE = ("modular specs as in C09 (1-5 named assertions, shared stateful sub-specifications, constants); monitors offd/ond/past; "
        "traces 1..10; every name and every input variable read back after evaluate() / after each update(). distinct by "
        "(spec, data, monitor); non-trivial when some named value is not constant +-inf.")
EXPLANATION = ("theorems: C09_program_refines_trees / C09_program_eq_rho: the memo (`ast.results`) of the dictionary-and-memo "
               "interpreter holds, for every assertion and operator sub-formula, the value of its stand-alone monitor (= rho); "
               "offline the results table is filled by the same visitor as C01 (one entry per node). Correspondence: get_value of "
               "the real monitors vs stand-alone real monitors vs the mirror.")
ASSUMPTIONS = ["names resolve through phi_name_to_node_dict as the parser builds it (validated by this stream)"]

ALLOW = {"offd": F.ALL_DISCRETE_OFFLINE - {"fn", "iffxor"}, "ond": F.PAST_ONLY - {"fn", "iffxor"},
         "past": {"arith", "cmp", "bool", "past", "bpast", "bfuture", "buntil", "bsince", "since", "not", "event"}}


def region_pastified_subspec(case):
    return case["monitor"] == "past"


REGIONS = {"get_value-of-a-sub-specification-after-pastify": region_pastified_subspec}


def check_case(ctx, case, m):
    mon = case["monitor"]
    rep = M.rep_of(case)
    got = M.run_discrete(case, mon, modular=True, read_names=True, pre=case.get("pre"))
    rep["impl"] = got
    rep["pre"] = case.get("pre")
    if case.get("pre"):
        ctx.count("after-reset")
    if got[0] != "ok":
        return Violation("%s monitor: evaluate/update/get_value raised %r: %s" % (mon, got[1:], rep["spec"].replace("\n", " ")),
                         rep, stream="getv"), None
    main, named = got[1]
    names = [nm for nm, _ in case["defs"]]
    if any(disc.nontrivial(named[nm]) for nm in names):
        ctx.nontrivial.add((mon, rep["spec"], tuple((k, tuple(v)) for k, v in sorted(case["data"].items()))))
    # input variables: the data supplied
    for v in case["vars"]:
        if [float(x) for x in named["var:" + v]] != [float(x) for x in case["data"][v]]:
            return Violation("%s monitor: get_value(%r) returns %r, the data supplied is %r" % (mon, v, named["var:" + v], case["data"][v]),
                             rep, stream="getv/input"), None
    for k, nm in enumerate(names):
        alone = M.run_discrete(case, mon, only=nm)
        ctx.evaluations += 1
        if alone[0] != "ok":
            return Violation("stand-alone specification %s = ... raised %r" % (nm, alone[1:]), dict(rep, name=nm, standalone=alone),
                             stream="getv"), None
        want = alone[1][0]
        have = named[nm]
        if not same_vals(have, want):
            i = next((j for j in range(len(want)) if j >= len(have) or common.canon(have[j]) != common.canon(want[j])), len(want))
            return Violation("%s monitor: get_value(%r) at step/sample %d is %r (%d values), the stand-alone specification '%s = %s' gives %r (%d values)"
                             % (mon, nm, i, have[i] if i < len(have) else None, len(have), nm, F.to_text(case["inl"][nm]),
                                want[i] if i < len(want) else None, len(want)),
                             dict(rep, name=nm, standalone=alone), stream="getv"), None
    if mon == "ond" and m is not None and m[0] == "ok":
        for k, nm in enumerate(names):
            mv = [r[k] for r in m[1]]
            if not same_vals(mv, named[nm]):
                if any(x != x for x in named[nm]):
                    continue
                return None, Violation("mirror runProgram value of assertion %r differs from get_value" % nm, rep, failing_input=False,
                                       stream="getv/mirror")
    return None, None


def explore(ctx, rng, count):
    cases = []
    for _ in range(count):
        mon = rng.choice(["offd", "offd", "ond", "ond", "past"])
        c = M.gen_case(rng, ALLOW[mon], mon)
        if rng.random() < 0.3:
            # the object is reused: online a history, reset(), then the trace; offline an evaluate() of another trace first;
            # every name must read like a fresh object's
            c["pre"] = F.gen_trace(rng, c["vars"], rng.randint(1, 6))
        if disc.known_region(ctx, c, REGIONS):
            ctx.skipped_known += 1
            continue
        cases.append(c)
    online = [c for c in cases if c["monitor"] == "ond"]
    ms = dict(zip(map(id, online), M.model_prog(online)))
    for c in cases:
        ctx.evaluations += 1
        ctx.count("monitor:" + c["monitor"])
        ctx.count("names=%d" % len(c["defs"]))
        v, d = check_case(ctx, c, ms.get(id(c)))
        if v is None and d is None:
            ctx.traces_validated += 1
            if len(ctx.samples) < 3 and len(c["defs"]) > 2:
                ctx.sample({"monitor": c["monitor"], "spec": M.spec_text(c), "names": [nm for nm, _ in c["defs"]]})
        if v is not None:
            ctx.violations.append(v)
            if len(ctx.violations) >= 3:
                return
        if d is not None:
            ctx.diffs.append(d)


def replay_twin(ctx, obj, prop):
    data, n, fine = obj["data"], obj["n"], obj["unit"]

    def run_spec(text, names, extra):
        def go():
            spec = impl.make_spec("ond", text, ["a", "b"], extra_decl=extra, unit=fine, sampling=(1, fine, 0.1))
            spec.parse()
            outs, vals = [], {nm: [] for nm in names}
            for i in range(n):
                outs.append(spec.update(i, [("a", data["a"][i]), ("b", data["b"][i])]))
                for nm in names:
                    vals[nm].append(spec.get_value(nm))
            return outs, vals
        return impl.guarded(go)
    m = run_spec(obj["spec"], ["p", "q"], ["p", "q"])
    if m[0] != "ok":
        return False, "modular specification raised %r" % (m[1:],)
    if prop == "C12":
        lines = obj["spec"].split("\n")
        for nm, ln in zip(("p", "q"), lines):
            al = run_spec("out = " + ln.split("=", 1)[1].strip().rstrip(";"), [], [])
            if al[0] != "ok" or not common.same_nums(m[1][1][nm], al[1][0]):
                return False, "get_value(%r) returns %r, the stand-alone specification %r" % (nm, m[1][1][nm], al[1:])
        return True, "get_value agrees with the stand-alone specifications"
    i_ = run_spec(obj["inlined"], [], [])
    ok = i_[0] == "ok" and common.same_nums(m[1][0], i_[1][0])
    return ok, ("modular = inlined" if ok else "modular %r, inlined %r" % (m[1][0], i_[1:]))


def replay(ctx, obj):
    if obj.get("kind") == "twin-units":
        return replay_twin(ctx, obj, "C12")
    if obj.get("monitor") in ("offc", "onc"):
        from .. import dense
        return dense.replay_getvalue(ctx, obj)
    c = M.case_of_rep(obj)
    if obj.get("pre"):
        c["pre"] = {k: [float(x) for x in v] for k, v in obj["pre"].items()}
    m = M.model_prog([c])[0] if c["monitor"] == "ond" else None
    v, d = check_case(Ctx(ctx.id, ctx.tier, ctx.seed), c, m)
    return (v is None), (v.what if v else "get_value agrees with the stand-alone specifications on the replayed case")


def twin_units_stream(ctx, rng, count, prop="C12"):
    """Two named bounded past operators over the same operands whose bounds are written with the same numerals and different
    units, in one online specification: `get_value` of each name against the stand-alone specification (C12), and the assertion
    that refers to both against its inlined form (C09).  The online interpreter stores one operator per printed node name."""
    for _ in range(count):
        fine, coarse = rng.choice([("ms", "s"), ("us", "ms"), ("ns", "us")])
        op = rng.choice(["once", "historically", "once", "since"])
        lo = rng.choice(["0", "0", "1" + fine, "1"])
        k = rng.randint(2, 3)
        rhs = "(b >= %s)" % rng.choice(["0.5", "1.0", "2.0"]) if rng.random() < 0.5 else "(b)"

        def app(unit):
            body = "[%s,%d%s]" % (lo, k, unit)
            return "((a) %s%s %s)" % (op, body, rhs) if op == "since" else "(%s%s %s)" % (op, body, rhs)
        # a bound of k coarse units = 1000 k samples; the bounded since of rtamt is quadratic in the bound: one coarse unit and a
        # short trace there
        u2 = coarse if rng.random() < 0.7 else ""
        if op == "since":
            k = 1
        p_txt, q_txt = app(fine), app(u2)
        if p_txt == q_txt:
            continue
        n = rng.randint(3, 4) if op == "since" else rng.randint(5, 9)
        data = {v: [rng.choice([-1.0, 0.0, 1.0, 2.0, 3.0, 5.0]) for _ in range(n)] for v in ("a", "b")}
        comb = rng.choice(["and", "or"])

        def run_spec(text, names, extra):
            def go():
                spec = impl.make_spec("ond", text, ["a", "b"], extra_decl=extra, unit=fine, sampling=(1, fine, 0.1))
                spec.parse()
                outs, vals = [], {nm: [] for nm in names}
                for i in range(n):
                    outs.append(spec.update(i, [("a", data["a"][i]), ("b", data["b"][i])]))
                    for nm in names:
                        vals[nm].append(spec.get_value(nm))
                return outs, vals
            return impl.guarded(go)
        modular_text = "p = %s;\nq = %s;\nout = (p %s (not q))" % (p_txt, q_txt, comb)
        inlined = "out = (%s %s (not %s))" % (p_txt, comb, q_txt)
        ctx.evaluations += 1
        ctx.count("stream:twin-units")
        m = run_spec(modular_text, ["p", "q"], ["p", "q"])
        i_ = run_spec(inlined, [], [])
        alone = {"p": run_spec("out = " + p_txt, [], []), "q": run_spec("out = " + q_txt, [], [])}
        rep = {"kind": "twin-units", "spec": modular_text, "inlined": inlined, "unit": fine, "data": data, "n": n,
               "impl": m, "impl_inlined": i_, "standalone": alone}
        if m[0] != "ok" or i_[0] != "ok" or alone["p"][0] != "ok" or alone["q"][0] != "ok":
            if not (m[0] != "ok" and i_[0] != "ok"):
                ctx.violations.append(Violation("modular / inlined / stand-alone raised %r / %r / %r: %s" % (m[:2], i_[:2], alone["p"][:2],
                                                modular_text.replace("\n", "; ")), rep, stream="twin-units"))
            continue
        bad = None
        if prop == "C12":
            for nm in ("p", "q"):
                if not common.same_nums(m[1][1][nm], alone[nm][1][0]):
                    bad = "get_value(%r) returns %r, the stand-alone specification %r" % (nm, m[1][1][nm], alone[nm][1][0])
                    break
        else:
            if not common.same_nums(m[1][0], i_[1][0]):
                bad = "the modular specification returns %r, its inlined form %r" % (m[1][0], i_[1][0])
        if bad:
            ctx.violations.append(Violation("%s: %s (unit %s, period 1 %s)" % (bad, modular_text.replace("\n", "; "), fine, fine), rep,
                                            stream="twin-units"))
            if len(ctx.violations) >= 3:
                return
        else:
            ctx.traces_validated += 1
            ctx.nontrivial.add((modular_text, str(data)))


def run(ctx):
    explore(ctx, ctx.subrng("getv"), ctx.budget(1200, 8000))
    if not ctx.violations:
        twin_units_stream(ctx, ctx.subrng("twin-units"), ctx.budget(40, 300))
    if not ctx.violations:
        try:
            from .. import dense
            dense.getvalue_stream(ctx)
        except ImportError:
            ctx.notes.append("dense-time get_value stream not available yet")


def search(ctx):
    explore(ctx, ctx.subrng("search"), ctx.budget(600, 3000))
