"""C10 — reset() returns an online monitor to its initial state.

Tie: stream `reset`.  For every generated online specification (discrete: past-time formulas, multi-assertion
texts with shared stateful sub-specifications, pastified bounded-future formulas; dense: through
harness/dense.py), a random pre-reset history (0..20 updates, jittered time stamps) and post-reset inputs:
   monitor A: parse [pastify]; feed history; reset(); feed post inputs
   monitor B: parse [pastify]; feed post inputs                (fresh)
   model    : initTree; runTree pre; resetTree; runTree post   (Lean mirror of every operation's reset())
A's post-reset outputs must equal B's (property) and the mirror's (correspondence); A's
sampling_violation_counter must equal B's (it restarts at 0).
"""
from .. import common, formula as F, impl, disc
from ..common import same_vals
from ..engine import Violation, Ctx
from . import c02

RULE = ("online specs: past-time formulas (typed/untyped, duplicated text), multi-assertion texts, pastified bounded-future "
        "formulas; pre-reset history of 0..20 updates (0 = reset before the first update) with jittered time stamps, 1..8 "
        "post-reset updates. distinct by (spec, pre, post); non-trivial when the post-reset outputs are not constant +-inf.")
EXPLANATION = ("theorems: pushN_full (a full ring buffer refilled with end+1 neutral elements is the initial buffer), "
               "C10_reset_reachable (reset of any reachable state = freshly constructed state), C10_reset_fresh, "
               "C10_reset_then_run (subsequent updates and counters are those of a fresh monitor). Correspondence: reset "
               "monitor vs fresh monitor vs the mirror, on the real code.")
ASSUMPTIONS = ["dense time: reset() reconstructs the operators (set_ast); covered by the correspondence stream only"]
REGIONS = {}


def gen_case(rng):
    r = rng.random()
    if r < 0.75:
        c = c02.gen_case(rng)
        c["pastify"] = False
    else:
        from . import c03
        c = c03.gen_case(rng)
        c["asserts"] = None
        c["pastify"] = True
        if rng.random() < 0.5:
            # the same bounded-future formula cut into named sub-specifications (pastify() rebuilds every assertion)
            from .. import modular
            defs = modular.add_repeats(rng, modular.decompose(rng, c["f"]))
            if len(defs) > 1:
                c["asserts"] = defs
                c["f"] = modular.inline(defs)["out"]
                c["stream"] = "multi-assertion"
    npre = 0 if rng.random() < 0.15 else rng.randint(1, 20)
    npost = rng.randint(1, 8)
    c["npre"], c["npost"] = npre, npost
    c["early_resets"] = sorted(rng.sample(range(npre), min(npre, rng.choice([0, 0, 1, 2])))) if npre else []
    c["n"] = npre + npost
    c["data"] = F.gen_trace(rng, c02.all_vars(c) or ["a"], c["n"])
    # jittered, sometimes irregular time stamps so that the counter is non-zero before the reset
    ts, t = [], 0.0
    for i in range(c["n"]):
        ts.append(t)
        t += rng.choice([1.0, 1.0, 1.0, 0.5, 2.0, 1.25])
    c["ts"] = ts
    # a configured tolerance (the gaps 0.5 / 1.25 are inside a tolerance of 0.5 and outside the default 0.1): reset() must keep
    # the configuration, only the counters start again
    c["tol"] = 0.5 if rng.random() < 0.4 else None
    # an update after the reset that leaves a variable out: a fresh monitor reads the initial value 0.0 of the variable (later
    # its last supplied value), so must the monitor that was reset (F50).  The data holds the effective values; `omit` lists the
    # (variable, update) entries that are not sent.
    c["omit"] = []
    vs = c02.all_vars(c) or ["a"]
    if rng.random() < 0.3:
        for i in range(npre, c["n"]):
            for v in vs:
                if rng.random() < 0.35 and v in c["data"]:
                    c["omit"].append([v, i])
                    c["data"][v][i] = 0.0 if i == npre else c["data"][v][i - 1]
    # reset() before the first update, the sampling period configured after it (F51): the period in force at the first update
    # counts.  The mirror runs with bounds in samples of 1 s: not compared in this variant.
    c["late_period"] = None
    if npre == 0 and rng.random() < 0.5:
        c["late_period"] = rng.choice([[500, "ms"], [250, "ms"], [2, "s"]])
        c["tol"] = None
    return c


def run_impl(case):
    text = c02.spec_text(case)
    vs = c02.all_vars(case)
    extra = [nm for nm, _ in case["asserts"][:-1]] if case["asserts"] else []
    data, npre, n, ts = case["data"], case["npre"], case["n"], case["ts"]

    omit = set((v, i) for v, i in case.get("omit", ()))
    late = case.get("late_period")

    def mk(fresh=False):
        samp = (1, "s", case["tol"]) if case.get("tol") else None
        if late and fresh:
            samp = tuple(late)
        spec = impl.make_spec("ond", text, vs, extra_decl=extra, sampling=samp)
        spec.parse()
        if case["pastify"]:
            spec.pastify()
        return spec

    def row(i):
        return [(v, data[v][i]) for v in vs if (v, i) not in omit]

    def go():
        a = mk()
        for i in range(npre):
            a.update(ts[i], [(v, data[v][i]) for v in vs])
            # several reset() calls on the same object: an earlier reset (even one before the first update) must not make a
            # later one ineffective
            if i in case.get("early_resets", ()):
                a.reset()
        a.reset()
        if late:
            a.set_sampling_period(*late)
        cnt_after_reset = a.sampling_violation_counter
        k = (late[0] / 1000.0 if late[1] == "ms" else float(late[0])) if late else 1.0

        def feed(m):
            # an RTAMTException (a bound that is no multiple of the late period) is an outcome both monitors must share
            try:
                return [m.update((ts[i] - ts[npre]) * k, row(i)) for i in range(npre, n)]
            except Exception as e:
                if not late:
                    raise
                return ["raised " + type(e).__name__]
        outs_a = feed(a)
        b = mk(fresh=True)
        outs_b = feed(b)
        return outs_a, outs_b, cnt_after_reset, a.sampling_violation_counter, b.sampling_violation_counter
    return text, impl.guarded(go)


def model(cases):
    lines = []
    for c in cases:
        f = c["f"]
        if c["pastify"]:
            o = common.driver_run(["past | " + F.to_proto(f)])[0]
            f = F.from_proto(o[3:].split("|", 1)[1].strip())
        c["mf"] = f
        for cmd in ("ondreset", "ondgenreset"):
            lines.append(disc.proto_case(cmd, f, c["data"], c["n"], extra=None).replace(
                " | %d | " % c["n"], " | %d | %d | " % (c["npre"], c["n"]), 1))
    outs = [disc.parse_model(o) for o in common.driver_run(lines)]
    for c, g in zip(cases, outs[1::2]):
        c["m_gen"] = g
    # the update and reset *visitors* translated from the source (operator dictionary, memo): `proggen`
    pl = ["proggen | %s | %d | %d | %s" % (F.to_proto(c["mf"]), c["npre"], c["n"], disc.sigs(c["data"])) for c in cases]
    for c, o in zip(cases, common.driver_run(pl)):
        if o.startswith("ok"):
            body = o[2:].strip()
            c["m_glue"] = ("ok", [common.b2f(r.split()[-1]) for r in body.split(";")] if body else [])
        else:
            c["m_glue"] = ("err", o.strip())
    return outs[0::2]


def check_case(ctx, case, m):
    text, res = run_impl(case)
    rep = {"tol": case.get("tol"), "omit": case.get("omit", []), "late_period": case.get("late_period"), "spec": text, "formula": F.to_proto(case["f"]), "pastify": case["pastify"], "data": case["data"], "ts": case["ts"],
           "npre": case["npre"], "early_resets": case.get("early_resets", []), "n": case["n"], "asserts": [[nm, F.to_proto(b)] for nm, b in case["asserts"]] if case["asserts"] else None,
           "impl": res, "model_post_outputs": m}
    if res[0] != "ok":
        return Violation("reset()/update() raised %r (history of %d updates): %s" % (res[1:], case["npre"], text.replace("\n", " ")),
                         rep, stream=case["stream"]), None
    outs_a, outs_b, cnt0, cnt_a, cnt_b = res[1]
    if case.get("late_period"):
        ctx.count("late-period")
        floats = all(isinstance(x, float) for x in outs_a + outs_b)
        if not (same_vals(outs_a, outs_b) if floats else outs_a == outs_b):
            return Violation("reset() before the first update, then set_sampling_period(%r): updates return %r, a monitor configured "
                             "with that period before its first update returns %r: %s" % (case["late_period"], outs_a, outs_b,
                             text.replace("\n", " ")), rep, stream=case["stream"]), None
        if cnt0 != 0 or cnt_a != cnt_b:
            return Violation("sampling_violation_counter after reset() is %r, then %r; fresh monitor: %r: %s"
                             % (cnt0, cnt_a, cnt_b, text.replace("\n", " ")), rep, stream=case["stream"]), None
        return None, None
    if case.get("omit"):
        ctx.count("omitted-variable-after-reset")
    if disc.nontrivial(outs_b):
        ctx.nontrivial.add(disc.data_key(text, case["data"]) + (case["npre"],))
    if not same_vals(outs_a, outs_b):
        i = next(j for j in range(len(outs_b)) if common.canon(outs_a[j]) != common.canon(outs_b[j]))
        return Violation("after reset() (history of %d updates) update #%d returns %r, a fresh monitor returns %r: %s"
                         % (case["npre"], i, outs_a[i], outs_b[i], text.replace("\n", " ")), rep, stream=case["stream"]), None
    if cnt0 != 0 or cnt_a != cnt_b:
        return Violation("sampling_violation_counter after reset() is %r, then %r; fresh monitor: %r: %s"
                         % (cnt0, cnt_a, cnt_b, text.replace("\n", " ")), rep, stream=case["stream"]), None
    if m[0] != "ok" or not same_vals(outs_a, m[1]):
        if any(x != x for x in outs_a):
            ctx.skipped_undef += 1
            return None, None
        return None, Violation("mirror (initTree/runTree/resetTree) differs from the implementation after reset: " + text, rep,
                               failing_input=False, stream="reset/mirror")
    g = case.get("m_gen")
    if g is not None and (g[0] != "ok" or not same_vals(outs_a, g[1])) and not any(x != x for x in outs_a):
        return None, Violation("the operation classes translated from the source (reset() and update() under the Lean semantics of the "
                               "Python subset) give %r after reset, the implementation %r: %s" % (g, outs_a, text), rep,
                               failing_input=False, stream="reset/translated")
    gl = case.get("m_glue")
    if gl is not None and (gl[0] != "ok" or not same_vals(outs_a, gl[1])) and not any(x != x for x in outs_a):
        return None, Violation("the update / reset visitors translated from the source give %r after reset, the implementation %r: %s"
                               % (gl, outs_a, text), rep, failing_input=False, stream="reset/translated-visitors")
    return None, None


def explore(ctx, rng, count):
    cases = [gen_case(rng) for _ in range(count)]
    ms = model(cases)
    for c, m in zip(cases, ms):
        ctx.evaluations += 1
        ctx.count("stream:" + c["stream"] + ("/pastified" if c["pastify"] else ""))
        ctx.count("npre=0" if c["npre"] == 0 else "npre>0")
        v, d = check_case(ctx, c, m)
        if v is None and d is None:
            ctx.traces_validated += 1
            if len(ctx.samples) < 3 and c["npre"] > 2:
                ctx.sample({"spec": c02.spec_text(c), "npre": c["npre"], "npost": c["npost"], "data": c["data"]})
        if v is not None:
            ctx.violations.append(v)
            if len(ctx.violations) >= 3:
                return
        if d is not None:
            ctx.diffs.append(d)


def replay(ctx, obj):
    if obj.get("monitor") == "onc":
        from .. import dense
        return dense.replay_reset(ctx, obj)
    c = {"stream": "replay", "f": F.from_proto(obj["formula"]), "pastify": obj["pastify"], "npre": obj["npre"], "n": obj["n"],
         "npost": obj["n"] - obj["npre"], "ts": obj["ts"], "tol": obj.get("tol"), "data": {k: [float(x) for x in v] for k, v in obj["data"].items()},
         "asserts": [(nm, F.from_proto(b)) for nm, b in obj["asserts"]] if obj.get("asserts") else None,
         "early_resets": obj.get("early_resets", []), "omit": obj.get("omit", []), "late_period": obj.get("late_period")}
    m, = model([c])
    v, d = check_case(Ctx(ctx.id, ctx.tier, ctx.seed), c, m)
    return (v is None), (v.what if v else "reset monitor behaves like a fresh one on the replayed case")


def run(ctx):
    explore(ctx, ctx.subrng("reset"), ctx.budget(1000, 8000))
    if not ctx.violations:
        try:
            from .. import dense
            dense.reset_stream(ctx)
        except ImportError:
            ctx.notes.append("dense-time reset stream not available yet")


def search(ctx):
    explore(ctx, ctx.subrng("search"), ctx.budget(1000, 5000))
