"""C10 — reset() returns an online monitor to its initial state.

Tie: stream `reset`.  For every generated online specification (discrete: past-time formulas, multi-assertion
texts with shared stateful sub-specifications, pastified bounded-future formulas; dense: through
harness/dense.py), a random pre-reset history (0..20 updates, jittered time stamps) and post-reset inputs:
   monitor A: parse [pastify]; feed history; reset(); feed post inputs
   monitor B: parse [pastify]; feed post inputs                (fresh)
   model    : initTree; runTree pre; resetTree; runTree post   (Lean mirror of every operation's reset())
A's post-reset outputs must equal B's (property) and the mirror's (correspondence); A's
sampling_violation_counter must equal B's (it restarts at 0).

Stream `reset/raising-history` (discrete) and `reset-c/raising-history` (dense): the history holds updates that the monitor
rejects with an exception *part-way through the evaluation* (sqrt of a negative sample, ln / log of 0, division by zero, pow of
a negative base, exp overflow: the generators of the other streams guard all of these), after other sub-formulas of the same
update were already evaluated.  The caller catches the exception, calls reset() and goes on - the situation reset() exists
for.  Oracle: the fresh monitor only (the model has no exceptions); the post-reset inputs do not raise.
"""
from .. import common, formula as F, impl, disc
from ..common import same_vals
from ..engine import Violation, Ctx
from . import c02

RULE = ("online specs: past-time formulas (typed/untyped, duplicated text), multi-assertion texts, pastified bounded-future "
        "formulas; pre-reset history of 0..20 updates (0 = reset before the first update) with jittered time stamps, 1..8 "
        "post-reset updates. distinct by (spec, pre, post); non-trivial when the post-reset outputs are not constant +-inf. "
        "raising-history streams: the same specs with a predicate over an unguarded sqrt / ln / log / pow / exp / division put "
        "after (65 %), inside (25 %) or before (10 %) the formula or one of its assertions; the history holds 1..12 updates of "
        "which the last one (80 %) and some others raise; dense: 1..3 history batches, the poisoned sample in the last one.")
EXPLANATION = ("theorems: pushN_full (a full ring buffer refilled with end+1 neutral elements is the initial buffer), "
               "C10_reset_reachable (reset of any reachable state = freshly constructed state), C10_reset_fresh, "
               "C10_reset_then_run (subsequent updates and counters are those of a fresh monitor). Correspondence: reset "
               "monitor vs fresh monitor vs the mirror, on the real code.")
ASSUMPTIONS = ["dense time: reset() reconstructs the operators (set_ast); covered by the correspondence stream only"]
REGIONS = {}


def gen_spec(rng):
    r = rng.random()
    if r < 0.75:
        c = c02.gen_case(rng)
        c["pastify"] = False
    else:
        from . import c03
        c = c03.gen_case(rng)
        c["asserts"] = None
        c["pastify"] = True
        if rng.random() < 0.5:
            # the same bounded-future formula cut into named sub-specifications (pastify() rebuilds every assertion)
            from .. import modular
            defs = modular.add_repeats(rng, modular.decompose(rng, c["f"]))
            if len(defs) > 1:
                c["asserts"] = defs
                c["f"] = modular.inline(defs)["out"]
                c["stream"] = "multi-assertion"
    return c


def gen_stamps(rng, n):
    # jittered, sometimes irregular time stamps so that the counter is non-zero before the reset
    ts, t = [], 0.0
    for i in range(n):
        ts.append(t)
        t += rng.choice([1.0, 1.0, 1.0, 0.5, 2.0, 1.25])
    return ts


def gen_case(rng):
    c = gen_spec(rng)
    npre = 0 if rng.random() < 0.15 else rng.randint(1, 20)
    npost = rng.randint(1, 8)
    c["npre"], c["npost"] = npre, npost
    c["early_resets"] = sorted(rng.sample(range(npre), min(npre, rng.choice([0, 0, 1, 2])))) if npre else []
    c["n"] = npre + npost
    c["data"] = F.gen_trace(rng, c02.all_vars(c) or ["a"], c["n"])
    c["ts"] = gen_stamps(rng, c["n"])
    # a configured tolerance (the gaps 0.5 / 1.25 are inside a tolerance of 0.5 and outside the default 0.1): reset() must keep
    # the configuration, only the counters start again
    c["tol"] = 0.5 if rng.random() < 0.4 else None
    # an update after the reset that leaves a variable out: a fresh monitor reads the initial value 0.0 of the variable (later
    # its last supplied value), so must the monitor that was reset (F50).  The data holds the effective values; `omit` lists the
    # (variable, update) entries that are not sent.
    c["omit"] = []
    vs = c02.all_vars(c) or ["a"]
    if rng.random() < 0.3:
        for i in range(npre, c["n"]):
            for v in vs:
                if rng.random() < 0.35 and v in c["data"]:
                    c["omit"].append([v, i])
                    c["data"][v][i] = 0.0 if i == npre else c["data"][v][i - 1]
    # reset() before the first update, the sampling period configured after it (F51): the period in force at the first update
    # counts.  The mirror runs with bounds in samples of 1 s: not compared in this variant.
    c["late_period"] = None
    if npre == 0 and rng.random() < 0.5:
        c["late_period"] = rng.choice([[500, "ms"], [250, "ms"], [2, "s"]])
        c["tol"] = None
    return c


def run_impl(case):
    text = c02.spec_text(case)
    vs = c02.all_vars(case)
    extra = [nm for nm, _ in case["asserts"][:-1]] if case["asserts"] else []
    data, npre, n, ts = case["data"], case["npre"], case["n"], case["ts"]

    omit = set((v, i) for v, i in case.get("omit", ()))
    late = case.get("late_period")

    def mk(fresh=False):
        samp = (1, "s", case["tol"]) if case.get("tol") else None
        if late and fresh:
            samp = tuple(late)
        spec = impl.make_spec("ond", text, vs, extra_decl=extra, sampling=samp)
        spec.parse()
        if case["pastify"]:
            spec.pastify()
        return spec

    def row(i):
        return [(v, data[v][i]) for v in vs if (v, i) not in omit]

    def go():
        a = mk()
        for i in range(npre):
            a.update(ts[i], [(v, data[v][i]) for v in vs])
            # several reset() calls on the same object: an earlier reset (even one before the first update) must not make a
            # later one ineffective
            if i in case.get("early_resets", ()):
                a.reset()
        a.reset()
        if late:
            a.set_sampling_period(*late)
        cnt_after_reset = a.sampling_violation_counter
        k = (late[0] / 1000.0 if late[1] == "ms" else float(late[0])) if late else 1.0

        def feed(m):
            # an RTAMTException (a bound that is no multiple of the late period) is an outcome both monitors must share
            try:
                return [m.update((ts[i] - ts[npre]) * k, row(i)) for i in range(npre, n)]
            except Exception as e:
                if not late:
                    raise
                return ["raised " + type(e).__name__]
        outs_a = feed(a)
        b = mk(fresh=True)
        outs_b = feed(b)
        return outs_a, outs_b, cnt_after_reset, a.sampling_violation_counter, b.sampling_violation_counter
    return text, impl.guarded(go)


def model(cases):
    lines = []
    for c in cases:
        f = c["f"]
        if c["pastify"]:
            o = common.driver_run(["past | " + F.to_proto(f)])[0]
            f = F.from_proto(o[3:].split("|", 1)[1].strip())
        c["mf"] = f
        for cmd in ("ondreset", "ondgenreset"):
            lines.append(disc.proto_case(cmd, f, c["data"], c["n"], extra=None).replace(
                " | %d | " % c["n"], " | %d | %d | " % (c["npre"], c["n"]), 1))
    outs = [disc.parse_model(o) for o in common.driver_run(lines)]
    for c, g in zip(cases, outs[1::2]):
        c["m_gen"] = g
    # the update and reset *visitors* translated from the source (operator dictionary, memo): `proggen`
    pl = ["proggen | %s | %d | %d | %s" % (F.to_proto(c["mf"]), c["npre"], c["n"], disc.sigs(c["data"])) for c in cases]
    for c, o in zip(cases, common.driver_run(pl)):
        if o.startswith("ok"):
            body = o[2:].strip()
            c["m_glue"] = ("ok", [common.b2f(r.split()[-1]) for r in body.split(";")] if body else [])
        else:
            c["m_glue"] = ("err", o.strip())
    return outs[0::2]


def check_case(ctx, case, m):
    text, res = run_impl(case)
    rep = {"tol": case.get("tol"), "omit": case.get("omit", []), "late_period": case.get("late_period"), "spec": text, "formula": F.to_proto(case["f"]), "pastify": case["pastify"], "data": case["data"], "ts": case["ts"],
           "npre": case["npre"], "early_resets": case.get("early_resets", []), "n": case["n"], "asserts": [[nm, F.to_proto(b)] for nm, b in case["asserts"]] if case["asserts"] else None,
           "impl": res, "model_post_outputs": m}
    if res[0] != "ok":
        return Violation("reset()/update() raised %r (history of %d updates): %s" % (res[1:], case["npre"], text.replace("\n", " ")),
                         rep, stream=case["stream"]), None
    outs_a, outs_b, cnt0, cnt_a, cnt_b = res[1]
    if case.get("late_period"):
        ctx.count("late-period")
        floats = all(isinstance(x, float) for x in outs_a + outs_b)
        if not (same_vals(outs_a, outs_b) if floats else outs_a == outs_b):
            return Violation("reset() before the first update, then set_sampling_period(%r): updates return %r, a monitor configured "
                             "with that period before its first update returns %r: %s" % (case["late_period"], outs_a, outs_b,
                             text.replace("\n", " ")), rep, stream=case["stream"]), None
        if cnt0 != 0 or cnt_a != cnt_b:
            return Violation("sampling_violation_counter after reset() is %r, then %r; fresh monitor: %r: %s"
                             % (cnt0, cnt_a, cnt_b, text.replace("\n", " ")), rep, stream=case["stream"]), None
        return None, None
    if case.get("omit"):
        ctx.count("omitted-variable-after-reset")
    if disc.nontrivial(outs_b):
        ctx.nontrivial.add(disc.data_key(text, case["data"]) + (case["npre"],))
    if not same_vals(outs_a, outs_b):
        i = next(j for j in range(len(outs_b)) if common.canon(outs_a[j]) != common.canon(outs_b[j]))
        return Violation("after reset() (history of %d updates) update #%d returns %r, a fresh monitor returns %r: %s"
                         % (case["npre"], i, outs_a[i], outs_b[i], text.replace("\n", " ")), rep, stream=case["stream"]), None
    if cnt0 != 0 or cnt_a != cnt_b:
        return Violation("sampling_violation_counter after reset() is %r, then %r; fresh monitor: %r: %s"
                         % (cnt0, cnt_a, cnt_b, text.replace("\n", " ")), rep, stream=case["stream"]), None
    if m[0] != "ok" or not same_vals(outs_a, m[1]):
        if any(x != x for x in outs_a):
            ctx.skipped_undef += 1
            return None, None
        return None, Violation("mirror (initTree/runTree/resetTree) differs from the implementation after reset: " + text, rep,
                               failing_input=False, stream="reset/mirror")
    g = case.get("m_gen")
    if g is not None and (g[0] != "ok" or not same_vals(outs_a, g[1])) and not any(x != x for x in outs_a):
        return None, Violation("the operation classes translated from the source (reset() and update() under the Lean semantics of the "
                               "Python subset) give %r after reset, the implementation %r: %s" % (g, outs_a, text), rep,
                               failing_input=False, stream="reset/translated")
    gl = case.get("m_glue")
    if gl is not None and (gl[0] != "ok" or not same_vals(outs_a, gl[1])) and not any(x != x for x in outs_a):
        return None, Violation("the update / reset visitors translated from the source give %r after reset, the implementation %r: %s"
                               % (gl, outs_a, text), rep, failing_input=False, stream="reset/translated-visitors")
    return None, None


def explore(ctx, rng, count):
    cases = [gen_case(rng) for _ in range(count)]
    ms = model(cases)
    for c, m in zip(cases, ms):
        ctx.evaluations += 1
        ctx.count("stream:" + c["stream"] + ("/pastified" if c["pastify"] else ""))
        ctx.count("npre=0" if c["npre"] == 0 else "npre>0")
        v, d = check_case(ctx, c, m)
        if v is None and d is None:
            ctx.traces_validated += 1
            if len(ctx.samples) < 3 and c["npre"] > 2:
                ctx.sample({"spec": c02.spec_text(c), "npre": c["npre"], "npost": c["npost"], "data": c["data"]})
        if v is not None:
            ctx.violations.append(v)
            if len(ctx.violations) >= 3:
                return
        if d is not None:
            ctx.diffs.append(d)


# ------------------------------------------------------------------ histories with an update() that raises
# kind: (term over the variable u, values of u on which the update raises, values of u on which it does not)
_V = lambda u: ("v", u)  # noqa: E731
UNSAFE = {
    "sqrt": (lambda u: ("u", "sqrt", _V(u)), [-0.5, -1.0, -2.0, -3.0], [0.0, 0.5, 1.0, 2.0, 3.0, 4.0]),
    "sqrt-shifted": (lambda u: ("u", "sqrt", ("b", "sub", _V(u), ("c", 1.0))), [0.5, 0.0, -1.0], [1.0, 2.0, 3.0, 4.0, 5.0]),
    "ln": (lambda u: ("u", "ln", _V(u)), [0.0, -1.0], [0.5, 1.0, 2.0, 3.0, 4.0]),
    "log": (lambda u: ("b", "log", _V(u), ("c", 2.0)), [0.0, -1.0], [0.5, 1.0, 2.0, 4.0]),
    "pow": (lambda u: ("b", "pow", _V(u), ("c", 0.5)), [-1.0, -2.0], [0.0, 0.5, 1.0, 2.0, 4.0]),
    "exp": (lambda u: ("u", "exp", _V(u)), [1000.0], [-3.0, -1.0, -0.5, 0.0, 0.5, 1.0, 2.0]),
    "div": (lambda u: ("b", "div", ("c", 1.0), _V(u)), [0.0], [-3.0, -2.0, -1.0, -0.5, 0.5, 1.0, 2.0, 3.0, 4.0]),
    "div-shifted": (lambda u: ("b", "div", ("c", 2.0), ("b", "sub", _V(u), ("c", 2.0))), [2.0], [-3.0, -1.0, 0.0, 0.5, 1.0, 3.0, 4.0]),
}
KINDS = ["sqrt", "sqrt", "sqrt-shifted", "ln", "log", "pow", "exp", "div", "div", "div-shifted"]


def unsafe_predicate(rng, kind, u):
    return ("b", rng.choice(["ge", "le", "gt", "lt"]), UNSAFE[kind][0](u), ("c", rng.choice([0.5, 1.0, 2.0])))


def _occurrences(f, path=()):
    """paths of the comparison, Boolean and temporal nodes of f (an arithmetic operand keeps its guard: `1 / (abs(x) + 1)`)"""
    if f[0] in ("v", "c"):
        return
    if f[0] in ("t1", "t2", "tb1", "tb2") or f[1] == "not" or (f[0] == "b" and f[1] in F.CMP + F.BOOL):
        yield path
    for i, c in enumerate(F.children(f)):
        yield from _occurrences(c, path + (i,))


def _replace_at(f, path, fn):
    if not path:
        return fn(f)
    kids = F.children(f)
    kids[path[0]] = _replace_at(kids[path[0]], path[1:], fn)
    return F.rebuild(f, kids)


def inject(rng, f, pred):
    """The predicate that can raise, evaluated after f (operands are evaluated left to right), after some sub-formula of f,
    or before everything else (control: nothing was evaluated when the update is abandoned)."""
    r = rng.random()
    op = rng.choice(["and", "and", "or", "implies"])
    if r < 0.65:
        return ("b", op, f, pred), "after"
    if r < 0.75:
        return ("b", op, pred, f), "first"
    occ = list(_occurrences(f))
    if not occ:
        return ("b", op, f, pred), "after"
    return _replace_at(f, rng.choice(occ), lambda g: ("b", rng.choice(["and", "or"]), g, pred)), "inside"


def gen_raising(rng):
    c = gen_spec(rng)
    kind = rng.choice(KINDS)
    vs0 = c02.all_vars(c)
    u = "e" if (not vs0 or rng.random() < 0.5) else rng.choice(vs0)
    pred = unsafe_predicate(rng, kind, u)
    if c["asserts"]:
        defs = list(c["asserts"])
        j = len(defs) - 1 if rng.random() < 0.6 else rng.randrange(len(defs))
        body, place = inject(rng, defs[j][1], pred)
        defs[j] = (defs[j][0], body)
        c["asserts"] = defs
        env = {}
        for nm, b in defs:
            env[nm] = c02.subst(b, env)
        c["f"] = env["out"]
    else:
        c["f"], place = inject(rng, c["f"], pred)
    c.pop("decl", None)
    c["kind"], c["unsafe"], c["place"] = "raising-history", [kind, u], place
    c["stream"] = "reset/raising-history"
    npre, npost = rng.randint(1, 12), rng.randint(1, 6)
    c["npre"], c["npost"], c["n"] = npre, npost, npre + npost
    c["early_resets"] = sorted(rng.sample(range(npre), min(npre, rng.choice([0, 0, 0, 1, 2]))))
    c["data"] = F.gen_trace(rng, c02.all_vars(c), c["n"])
    _, poison, safe = UNSAFE[kind]
    c["data"][u] = [rng.choice(safe) for _ in range(c["n"])]
    # the updates of the history that raise: mostly the last one before the reset (what an abandoned update leaves behind is
    # then still there when reset() is called), sometimes earlier ones as well or instead
    bad = set(i for i in range(npre) if rng.random() < 0.15)
    if rng.random() < 0.8 or not bad:
        bad.add(npre - 1)
    for i in bad:
        c["data"][u][i] = rng.choice(poison)
    c["poisoned"] = sorted(bad)
    c["ts"] = gen_stamps(rng, c["n"])
    c["tol"] = 0.5 if rng.random() < 0.4 else None
    c["omit"], c["late_period"] = [], None
    return c


def run_raising(case):
    text = c02.spec_text(case)
    vs = c02.all_vars(case)
    extra = [nm for nm, _ in case["asserts"][:-1]] if case["asserts"] else []
    data, npre, n, ts = case["data"], case["npre"], case["n"], case["ts"]

    def mk():
        spec = impl.make_spec("ond", text, vs, extra_decl=extra, sampling=(1, "s", case["tol"]) if case.get("tol") else None)
        spec.parse()
        if case["pastify"]:
            spec.pastify()
        return spec

    def row(i):
        return [(v, data[v][i]) for v in vs]

    def go():
        a = mk()
        raised = []
        for i in range(npre):
            try:
                a.update(ts[i], row(i))
            except impl.CaseTimeout:
                raise
            except Exception as e:  # noqa: BLE001  the caller catches what update() raises and goes on
                raised.append([i, type(e).__name__])
            if i in case.get("early_resets", ()):
                a.reset()
        a.reset()
        cnt0 = a.sampling_violation_counter

        def feed(m):
            outs = []
            for i in range(npre, n):
                try:
                    outs.append(m.update(ts[i] - ts[npre], row(i)))
                except impl.CaseTimeout:
                    raise
                except Exception as e:  # noqa: BLE001
                    outs.append("raised " + type(e).__name__)
            return outs
        outs_a = feed(a)
        b = mk()
        outs_b = feed(b)
        return outs_a, outs_b, cnt0, a.sampling_violation_counter, b.sampling_violation_counter, raised
    return text, impl.guarded(go)


def _first_difference(outs_a, outs_b, eq):
    """Index of the first update on which the reset monitor does not return what the fresh one returns; the comparison ends
    where the fresh monitor itself raises (the property speaks about what update() returns).  -> (index | None, complete)"""
    for j, (x, y) in enumerate(zip(outs_a, outs_b)):
        if isinstance(y, str):
            return None, False
        if isinstance(x, str) or not eq(x, y):
            return j, True
    return None, True


def check_raising(ctx, case):
    text, res = run_raising(case)
    rep = {"kind": "raising-history", "unsafe": case["unsafe"], "place": case.get("place"), "poisoned": case.get("poisoned"),
           "tol": case.get("tol"), "spec": text, "formula": F.to_proto(case["f"]), "pastify": case["pastify"], "data": case["data"],
           "ts": case["ts"], "npre": case["npre"], "early_resets": case.get("early_resets", []), "n": case["n"],
           "asserts": [[nm, F.to_proto(b)] for nm, b in case["asserts"]] if case["asserts"] else None, "impl": res}
    one = text.replace("\n", " ")
    if res[0] != "ok":
        return Violation("parse()/reset() raised %r (history of %d updates, some of them rejected): %s" % (res[1:], case["npre"], one),
                         rep, stream=case["stream"])
    outs_a, outs_b, cnt0, cnt_a, cnt_b, raised = res[1]
    if raised:
        ctx.count("raising-history:some-update-raised")
        if raised[-1][0] == case["npre"] - 1:
            ctx.count("raising-history:last-update-before-reset-raised")
    vals = [x for x in outs_b if not isinstance(x, str)]
    if vals and disc.nontrivial(vals):
        ctx.nontrivial.add(disc.data_key(text, case["data"]) + (case["npre"],))
    i, complete = _first_difference(outs_a, outs_b, lambda x, y: common.canon(x) == common.canon(y))
    hist = "history of %d updates of which %s raised (%s of %r), caught by the caller" % (
        case["npre"], ", ".join("#%d" % k for k, _ in raised) or "none", case["unsafe"][0], case["unsafe"][1])
    if i is not None:
        return Violation("after reset() (%s) update #%d returns %r, a fresh monitor returns %r: %s"
                         % (hist, i, outs_a[i], outs_b[i], one), rep, stream=case["stream"])
    if cnt0 != 0 or (complete and cnt_a != cnt_b):
        return Violation("sampling_violation_counter after reset() (%s) is %r, then %r; fresh monitor: %r: %s"
                         % (hist, cnt0, cnt_a, cnt_b, one), rep, stream=case["stream"])
    if not complete:
        ctx.count("raising-history:fresh-monitor-raises-after-reset")
    return None


def shrink_raising(case, fails, budget=150):
    """Shorter history / fewer post-reset updates / smaller formula, keeping `fails`."""
    steps = [0]

    def ok(c):
        steps[0] += 1
        try:
            return steps[0] <= budget and fails(c)
        except common.HarnessError:
            return False

    def cut(c, i):
        """the case without update i"""
        npre = c["npre"] - (1 if i < c["npre"] else 0)
        return dict(c, data={k: v[:i] + v[i + 1:] for k, v in c["data"].items()}, ts=c["ts"][:i] + c["ts"][i + 1:], n=c["n"] - 1,
                    npre=npre, npost=c["n"] - 1 - npre, poisoned=[k - (k > i) for k in c.get("poisoned", []) if k != i],
                    early_resets=[k - (k > i) for k in c.get("early_resets", []) if k != i and k - (k > i) < npre])
    improved = True
    while improved and steps[0] < budget:
        improved = False
        # drop an update of the history (first ones first), then a post-reset update (last ones first; one is kept)
        for i in list(range(case["npre"])) + list(range(case["n"] - 1, case["npre"], -1)):
            c2 = cut(case, i)
            if ok(c2):
                case, improved = c2, True
                break
        if improved:
            continue
        for k in ("early_resets", "tol"):
            if case.get(k):
                c2 = dict(case, **{k: [] if k == "early_resets" else None})
                if ok(c2):
                    case, improved = c2, True
        if case["asserts"]:
            continue
        for g in F.shrink_candidates(case["f"]):
            if steps[0] >= budget:
                break
            c2 = dict(case, f=g, data={k: v for k, v in case["data"].items() if k in F.variables(g)} or {"a": [0.0] * case["n"]})
            if ok(c2):
                case, improved = c2, True
                break
    return case


def explore_raising(ctx, rng, count):
    for _ in range(count):
        c = gen_raising(rng)
        ctx.evaluations += 1
        ctx.count("stream:" + c["stream"] + ("/pastified" if c["pastify"] else "") + ("/multi-assertion" if c["asserts"] else ""))
        ctx.count("raising-history:" + c["unsafe"][0])
        ctx.count("raising-history:predicate-" + c["place"])
        v = check_raising(ctx, c)
        if v is None:
            ctx.traces_validated += 1
            continue
        scratch = Ctx(ctx.id, ctx.tier, ctx.seed)
        c2 = shrink_raising(c, lambda cc: check_raising(scratch, cc) is not None)
        ctx.violations.append(check_raising(scratch, c2) or v)
        if len(ctx.violations) >= 3:
            return


def raising_case_of(obj):
    return {"stream": "reset/raising-history", "kind": "raising-history", "f": F.from_proto(obj["formula"]), "pastify": obj["pastify"],
            "npre": obj["npre"], "n": obj["n"], "npost": obj["n"] - obj["npre"], "ts": obj["ts"], "tol": obj.get("tol"),
            "data": {k: [float(x) for x in v] for k, v in obj["data"].items()}, "unsafe": obj["unsafe"], "place": obj.get("place"),
            "poisoned": obj.get("poisoned", []), "early_resets": obj.get("early_resets", []),
            "asserts": [(nm, F.from_proto(b)) for nm, b in obj["asserts"]] if obj.get("asserts") else None}


# dense time: the history is one signal per variable handed over in 1..3 update() calls; a poisoned sample makes one of them raise
def gen_raising_dense(rng):
    from .. import dense
    g = dense.DGen(rng, dense.VARS[:2], dense.DENSE_ON, max_bound=rng.choice([2, 4]))
    f = g.formula(rng.choice([1, 2, 2, 3]))
    kind = rng.choice(KINDS)
    vs0 = F.variables(f)
    u = "z" if (not vs0 or rng.random() < 0.5) else rng.choice(vs0)
    f, place = inject(rng, f, unsafe_predicate(rng, kind, u))
    vs = F.variables(f)
    _, poison, safe = UNSAFE[kind]
    pre, post = dense.gen_signals(rng, vs), dense.gen_signals(rng, vs)
    pre[u] = [(t, rng.choice(safe)) for t, _ in pre[u]]
    post[u] = [(t, rng.choice(safe)) for t, _ in post[u]]
    # the poisoned sample: mostly the last one (all signals end at the same time stamp: it is part of the last update)
    j = len(pre[u]) - 1 if rng.random() < 0.7 else rng.randrange(len(pre[u]))
    pre[u][j] = (pre[u][j][0], rng.choice(poison))

    def cuts(sig, k):
        times = sorted({t for s in sig.values() for t, _ in s if t > 0})
        return sorted(rng.sample(times, min(k, len(times))))
    return {"stream": "reset-c/raising-history", "f": f, "unsafe": [kind, u], "place": place, "pre": pre, "post": post,
            "pre_cuts": cuts(pre, rng.choice([0, 0, 1, 2])), "post_cuts": cuts(post, rng.choice([0, 0, 1]))}


def check_raising_dense(ctx, case):
    from .. import dense
    f, pre, post = case["f"], case["pre"], case["post"]
    vs = sorted(post)
    text = dense.spec_text(f)

    def batches(sig, cuts):
        nup, chunks = dense.online_chunks(sig, cuts)
        return [[[v, dense.py_sig(chunks[v][i])] for v in vs] for i in range(nup)]

    def go():
        a = impl.make_spec("onc", text, vs)
        a.parse()
        raised = []
        for i, args in enumerate(batches(pre, case["pre_cuts"])):
            try:
                a.update(*args)
            except impl.CaseTimeout:
                raise
            except Exception as e:  # noqa: BLE001  the caller catches what update() raises and goes on
                raised.append([i, type(e).__name__])
        a.reset()

        def feed(m):
            outs = []
            for args in batches(post, case["post_cuts"]):
                try:
                    outs.append(m.update(*args))
                except impl.CaseTimeout:
                    raise
                except Exception as e:  # noqa: BLE001
                    outs.append("raised " + type(e).__name__)
            return outs
        ra = feed(a)
        b = impl.make_spec("onc", text, vs)
        b.parse()
        return ra, feed(b), raised
    out = impl.guarded(go)
    rep = {"kind": "raising-history-dense", "monitor": "onc", "spec": text, "formula": F.to_proto(f), "unsafe": case["unsafe"],
           "place": case.get("place"), "pre": dense.sig_rep(pre), "post": dense.sig_rep(post),
           "pre_cuts": [str(t) for t in case["pre_cuts"]], "post_cuts": [str(t) for t in case["post_cuts"]], "impl": out}
    if out[0] != "ok":
        return Violation("dense online parse()/reset() raised %r: %s" % (out[1:], text), rep, stream=case["stream"])
    ra, rb, raised = out[1]
    if raised:
        ctx.count("raising-history-dense:some-update-raised")
        if raised[-1][0] == len(case["pre_cuts"]):
            ctx.count("raising-history-dense:last-update-before-reset-raised")
    canon = lambda r: [[float(p[0]), common.canon(p[1])] for p in r]  # noqa: E731
    i, complete = _first_difference(ra, rb, lambda x, y: canon(x) == canon(y))
    if i is not None:
        return Violation("dense online: after reset() (history of %d updates of which %s raised (%s of %r), caught by the caller) "
                         "update #%d returns %r, a fresh monitor returns %r: %s"
                         % (len(case["pre_cuts"]) + 1, ", ".join("#%d" % k for k, _ in raised) or "none", case["unsafe"][0],
                            case["unsafe"][1], i, ra[i], rb[i], text), rep, stream=case["stream"])
    if not complete:
        ctx.count("raising-history-dense:fresh-monitor-raises-after-reset")
    if any(r for r in rb if not isinstance(r, str)):
        ctx.nontrivial.add((text, str(rep["pre"]), str(rep["post"])))
    return None


def explore_raising_dense(ctx, rng, count):
    for _ in range(count):
        c = gen_raising_dense(rng)
        ctx.evaluations += 1
        ctx.count("stream:" + c["stream"])
        ctx.count("raising-history-dense:" + c["unsafe"][0])
        v = check_raising_dense(ctx, c)
        if v is None:
            ctx.traces_validated += 1
            continue
        # shrink: one history update, one post update, the history signals cut down to their last samples
        scratch = Ctx(ctx.id, ctx.tier, ctx.seed)
        for c2 in (dict(c, pre_cuts=[]), dict(c, post_cuts=[]), dict(c, pre_cuts=[], post_cuts=[])):
            v2 = check_raising_dense(scratch, c2)
            if v2 is not None:
                c, v = c2, v2
        ctx.violations.append(v)
        if len(ctx.violations) >= 3:
            return


def raising_dense_case_of(obj):
    from fractions import Fraction
    from .. import dense
    return {"stream": "reset-c/raising-history", "f": F.from_proto(obj["formula"]), "unsafe": obj["unsafe"], "place": obj.get("place"),
            "pre": dense.sig_of_rep(obj["pre"]), "post": dense.sig_of_rep(obj["post"]),
            "pre_cuts": [Fraction(t) for t in obj["pre_cuts"]], "post_cuts": [Fraction(t) for t in obj["post_cuts"]]}


def replay(ctx, obj):
    if obj.get("kind") == "raising-history":
        v = check_raising(Ctx(ctx.id, ctx.tier, ctx.seed), raising_case_of(obj))
        return (v is None), (v.what if v else "reset monitor behaves like a fresh one after a history with rejected updates")
    if obj.get("kind") == "raising-history-dense":
        v = check_raising_dense(Ctx(ctx.id, ctx.tier, ctx.seed), raising_dense_case_of(obj))
        return (v is None), (v.what if v else "dense reset monitor behaves like a fresh one after a history with rejected updates")
    if obj.get("monitor") == "onc":
        from .. import dense
        return dense.replay_reset(ctx, obj)
    c = {"stream": "replay", "f": F.from_proto(obj["formula"]), "pastify": obj["pastify"], "npre": obj["npre"], "n": obj["n"],
         "npost": obj["n"] - obj["npre"], "ts": obj["ts"], "tol": obj.get("tol"), "data": {k: [float(x) for x in v] for k, v in obj["data"].items()},
         "asserts": [(nm, F.from_proto(b)) for nm, b in obj["asserts"]] if obj.get("asserts") else None,
         "early_resets": obj.get("early_resets", []), "omit": obj.get("omit", []), "late_period": obj.get("late_period")}
    m, = model([c])
    v, d = check_case(Ctx(ctx.id, ctx.tier, ctx.seed), c, m)
    return (v is None), (v.what if v else "reset monitor behaves like a fresh one on the replayed case")


def run(ctx):
    explore(ctx, ctx.subrng("reset"), ctx.budget(1000, 8000))
    if not ctx.violations:
        explore_raising(ctx, ctx.subrng("reset-raising"), ctx.budget(120, 1600))
    if not ctx.violations:
        try:
            from .. import dense
            dense.reset_stream(ctx)
        except ImportError:
            ctx.notes.append("dense-time reset stream not available yet")
    if not ctx.violations:
        explore_raising_dense(ctx, ctx.subrng("reset-c-raising"), ctx.budget(30, 500))


def search(ctx):
    explore(ctx, ctx.subrng("search"), ctx.budget(1000, 5000))
    if not ctx.violations:
        explore_raising(ctx, ctx.subrng("search-raising"), ctx.budget(400, 2000))
    if not ctx.violations:
        explore_raising_dense(ctx, ctx.subrng("search-c-raising"), ctx.budget(100, 600))
