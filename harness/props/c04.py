"""C04 — dense-time offline robustness equals the dense-time STL semantics.

Tie: stream `off-c`.  Random dense-time specifications x piecewise-constant signals with per-variable
unaligned break-points (1/8 grid), windows longer than the signal, different start times:
   implementation  StlDenseTimeOfflineSpecification.evaluate()          (real code)
   M-spec          rhoD (Lean, Rtamt/Dense/Ref.lean), queried at every break-point of either side,
                   at all input break-points shifted by the bounds, and at the mid-points between them
compared as right-continuous step functions on the common input domain; output time stamps must be
non-decreasing and the output must start at the beginning of the domain.
"""
from fractions import Fraction
from .. import common, formula as F, impl, disc, dense as D
from ..engine import Violation, Ctx

RULE = ("typed random dense-time formulas (no prev/next/rise/fall; depth<=4; bounds k*0.25, k in 0..8), 1-3 variables, signals of "
        "1..9 samples on a 1/8 grid with unaligned break-points, common end; a sub-stream with different start times. distinct by "
        "(spec, signals); non-trivial when the step function on the domain is not constant +-inf.")
EXPLANATION = ("dense M-spec rhoD (executable, Lean): theorems about it are listed under C05/C16/C18/C19 (C04 proper: rhoD is the "
               "specification; see DESIGN). Correspondence: real dense offline monitor vs rhoD as step functions.")
ASSUMPTIONS = ["until/since are read with the left operand required on the closed interval up to and including the witness "
               "(what the dense monitors implement); signals are right-continuous step functions, last value held"]
TRUSTED_EXTRA = ["the mirror of the dense offline list algorithms (lean/Rtamt/Dense/Alg.lean, proved equal to rhoD for signals starting at 0) is hand-written: it is tied to rtamt/semantics/stl/dense_time/offline/*.py by comparing the returned sample lists, not by a translator"]
REGIONS = {}


def region_bounded_since_until_positive_begin(case):
    return any(g[0] == "tb2" and g[2] > 0 for g in F.subformulas(case["f"]))


def region_different_starts(case):
    return len({case["sig"][v][0][0] for v in case["sig"]}) > 1 or any(case["sig"][v][0][0] != 0 for v in case["sig"])


REGIONS = {"dense-bounded-since-until-with-begin>0": region_bounded_since_until_positive_begin,
           "dense-signals-not-starting-at-0": region_different_starts}


def pattern_values(rng, n):
    """Value patterns that stress the segment stacks of the sliding-window algorithms: runs after an extreme sample, plateaus."""
    vals = (-3.0, -2.0, -1.0, -0.5, 0.0, 0.5, 1.0, 2.0, 3.0, 4.0)
    out = []
    while len(out) < n:
        k = rng.randint(1, 5)
        start, step = rng.choice(vals), rng.choice([-1.0, -0.5, 0.0, 0.5, 1.0])
        if out and rng.random() < 0.5:
            out.append(rng.choice([-4.0, 5.0]))
        out.extend(start + step * i for i in range(k))
    return out[:n]


def gen_case(rng, allow=None):
    g = D.DGen(rng, D.VARS, allow or D.DENSE_OFF, max_bound=rng.choice([2, 4, 8]))
    direct = allow is None and rng.random() < 0.35
    if direct:
        # one temporal operator (wide windows, positive lower bounds included) over shallow operands, possibly under one more
        k = rng.choice(["tb1", "tb1", "tb2", "t2", "t1"])
        a = rng.randint(0, 4)
        b = a + rng.randint(0, 8)
        sub = lambda: g.formula(rng.choice([0, 0, 1]))  # noqa: E731
        if k == "tb1":
            f = ("tb1", rng.choice(["once", "hist", "ev", "alw"]), a, b, sub())
        elif k == "tb2":
            f = ("tb2", rng.choice(["since", "until"]), a, b, sub(), sub())
        elif k == "t2":
            f = ("t2", rng.choice(["since", "until"]), sub(), sub())
        else:
            f = ("t1", rng.choice(["once", "hist", "ev", "alw"]), sub())
        r = rng.random()
        if r < 0.15:
            f = ("u", "not", f)
        elif r < 0.3:
            f = ("b", rng.choice(["and", "or"]), f, g.formula(1))
        elif r < 0.4:
            a2 = rng.randint(0, 2)
            f = ("tb1", rng.choice(["once", "hist", "ev", "alw"]), a2, a2 + rng.randint(0, 3), f)
    elif allow is None and rng.random() < 0.2:
        # an unbounded temporal operator whose operand contains another unbounded temporal operator (scratch state that the
        # visit methods of the same direction share must not leak from the inner to the outer one)
        def un(x):
            k = rng.choice(["once", "hist", "ev", "alw", "since", "until"])
            if k in ("since", "until"):
                y = g.formula(rng.choice([0, 1]))
                return ("t2", k, x, y) if rng.random() < 0.5 else ("t2", k, y, x)
            return ("t1", k, x)
        inner = un(g.formula(rng.choice([0, 1])))
        r = rng.random()
        if r < 0.4:
            inner = ("b", rng.choice(["and", "or", "implies"]), g.formula(rng.choice([0, 1])), inner)
        elif r < 0.6:
            inner = ("b", rng.choice(["and", "or", "implies"]), inner, g.formula(rng.choice([0, 1])))
        elif r < 0.7:
            inner = ("u", "not", inner)
        f = un(inner)
    elif allow is None and rng.random() < 0.12:
        # variables used directly as formulas, one of them under `not` / unary minus / abs, and read again by another operator
        # (a visitor that hands back or changes the list of its operand shows only then)
        x = ("v", rng.choice(D.VARS[:2]))
        u = ("u", rng.choice(["not", "not", "negate", "abs"]), x)
        a = rng.randint(0, 2)
        other = rng.choice([("tb1", rng.choice(["once", "hist", "ev", "alw"]), a, a + rng.randint(0, 3), x),
                            ("t1", rng.choice(["once", "hist", "ev", "alw"]), x), x, ("b", "ge", x, ("c", rng.choice([0.0, 1.0])))])
        op = rng.choice(["and", "or", "implies"])
        f = ("b", op, u, other) if rng.random() < 0.6 else ("b", op, other, u)
    else:
        f = g.formula(rng.choice([1, 2, 2, 3, 4]))
    sugar = None
    if allow is None and rng.random() < 0.06:
        # the sugar `p unless[a,b] q` (the parser expands it to `always[0,b] p or p until[a,b] q`)
        p_, q_ = g.formula(rng.choice([0, 1])), g.formula(rng.choice([0, 1]))
        a_ = rng.randint(0, 4)
        b_ = a_ + rng.randint(0, 4)
        f = ("b", "or", ("tb1", "alw", 0, b_, p_), ("tb2", "until", a_, b_, p_, q_))
        sugar = "out = ((%s) unless[%s,%s] (%s))" % (F.to_text(p_, bound=D.bound_txt), D.bound_txt(a_), D.bound_txt(b_), F.to_text(q_, bound=D.bound_txt))
        direct = False
    vs = F.variables(f) or ["x"]
    aligned = rng.random() < 0.8
    sig = D.gen_signals(rng, vs, aligned_start=aligned)
    if rng.random() < 0.4:
        sig = {v: [(t, x) for (t, _), x in zip(s_, pattern_values(rng, len(s_)))] for v, s_ in sig.items()}
    units_seed = rng.randint(0, 10 ** 6) if sugar is None and rng.random() < 0.15 and any(x[0] in ("tb1", "tb2") for x in F.subformulas(f)) else None
    return {"f": f, "sig": sig, "units_seed": units_seed, "text": sugar,
            "stream": ("off-c/direct" if direct else "off-c") + ("" if aligned else "/starts") + ("/units" if units_seed is not None else "")}


def explore(ctx, rng, count):
    cases, known = [], []
    for _ in range(count):
        c = gen_case(rng)
        if disc.known_region(ctx, c, REGIONS):
            ctx.skipped_known += 1
            if c["units_seed"] is None:
                known.append(c)
            continue
        cases.append(c)
    D.compare_mirror_only(ctx, known)
    for c, v in D.compare_offline_batch(ctx, cases):
        ctx.evaluations += 1
        ctx.count("stream:" + c["stream"])
        for op in set(F.ops(c["f"])):
            ctx.count("op:" + op)
        if v is None:
            ctx.traces_validated += 1
            if len(ctx.samples) < 3 and F.depth(c["f"]) >= 3:
                ctx.sample({"spec": D.spec_text(c["f"]), "signals": {k: D.py_sig(s) for k, s in c["sig"].items()}})
        else:
            ctx.violations.append(v)
            if len(ctx.violations) >= 3:
                return


def replay(ctx, obj):
    f = F.from_proto(obj["formula"])
    sig = {v: [(Fraction(t), float(x)) for t, x in s] for v, s in obj["signals"].items()}
    if obj.get("units_seed") is not None or obj.get("sugar_text"):
        (c, v), = D.compare_offline_batch(Ctx(ctx.id, ctx.tier, ctx.seed), [{"f": f, "sig": sig, "stream": "replay", "units_seed": obj.get("units_seed"), "text": obj.get("sugar_text")}])
    else:
        v = D.compare_offline(Ctx(ctx.id, ctx.tier, ctx.seed), f, sig, "replay")
    return (v is None), (v.what if v else "dense offline result equals the dense semantics on the replayed case")


def extension_stream(ctx):
    """C16 (dense): settled values are stable under extension of the signals."""
    D.extension_stream(ctx)


def run(ctx):
    explore(ctx, ctx.subrng("off-c"), ctx.budget(1200, 12000))


def search(ctx):
    explore(ctx, ctx.subrng("search"), ctx.budget(2500, 12000))
