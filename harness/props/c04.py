"""C04 — dense-time offline robustness equals the dense-time STL semantics.

Tie: stream `off-c`.  Random dense-time specifications x piecewise-constant signals with per-variable
unaligned break-points (1/8 grid), windows longer than the signal, different start times:
   implementation  StlDenseTimeOfflineSpecification.evaluate()          (real code)
   M-spec          rhoD (Lean, Rtamt/Dense/Ref.lean), queried at every break-point of either side,
                   at all input break-points shifted by the bounds, and at the mid-points between them
compared as right-continuous step functions on the common input domain; output time stamps must be
non-decreasing and the output must start at the beginning of the domain.

Sub-stream `off-c/reuse`: ONE specification object with named sub-specifications (several assignments) evaluates a batch of
2-3 independent traces one after the other; some of the earlier traces carry a sample on which a later assignment raises
(sqrt / ln of a negative value, division by 0), the driver of the batch goes on with the next trace.  Every well-formed
trace of the batch is compared with rhoD of the inlined formula in the same way (nothing else is compared: the traces
that raise are not judged, results are copied as soon as evaluate() returns).
"""
from fractions import Fraction
from .. import common, formula as F, impl, disc, dense as D
from ..engine import Violation, Ctx

RULE = ("typed random dense-time formulas (no prev/next/rise/fall; depth<=4; bounds k*0.25, k in 0..8), 1-3 variables, signals of "
        "1..9 samples on a 1/8 grid with unaligned break-points, common end; a sub-stream with different start times; a sub-stream `off-c/reuse` (one specification object with 1-3 named "
        "sub-specifications evaluating 2-3 traces in a row, earlier traces possibly raising from sqrt/ln/division in a later assignment). distinct by "
        "(spec, signals); non-trivial when the step function on the domain is not constant +-inf.")
EXPLANATION = ("dense M-spec rhoD (executable, Lean): theorems about it are listed under C05/C16/C18/C19 (C04 proper: rhoD is the "
               "specification; see DESIGN). Correspondence: real dense offline monitor vs rhoD as step functions.")
ASSUMPTIONS = ["until/since are read with the left operand required on the closed interval up to and including the witness "
               "(what the dense monitors implement); signals are right-continuous step functions, last value held"]
TRUSTED_EXTRA = ["the mirror of the dense offline list algorithms (lean/Rtamt/Dense/Alg.lean, proved equal to rhoD for signals starting at 0) is hand-written: it is tied to rtamt/semantics/stl/dense_time/offline/*.py by comparing the returned sample lists, not by a translator"]
REGIONS = {}


def region_bounded_since_until_positive_begin(case):
    return any(g[0] == "tb2" and g[2] > 0 for g in F.subformulas(case["f"]))


def region_different_starts(case):
    return len({case["sig"][v][0][0] for v in case["sig"]}) > 1 or any(case["sig"][v][0][0] != 0 for v in case["sig"])


REGIONS = {"dense-bounded-since-until-with-begin>0": region_bounded_since_until_positive_begin,
           "dense-signals-not-starting-at-0": region_different_starts}


def pattern_values(rng, n):
    """Value patterns that stress the segment stacks of the sliding-window algorithms: runs after an extreme sample, plateaus."""
    vals = (-3.0, -2.0, -1.0, -0.5, 0.0, 0.5, 1.0, 2.0, 3.0, 4.0)
    out = []
    while len(out) < n:
        k = rng.randint(1, 5)
        start, step = rng.choice(vals), rng.choice([-1.0, -0.5, 0.0, 0.5, 1.0])
        if out and rng.random() < 0.5:
            out.append(rng.choice([-4.0, 5.0]))
        out.extend(start + step * i for i in range(k))
    return out[:n]


def gen_case(rng, allow=None):
    g = D.DGen(rng, D.VARS, allow or D.DENSE_OFF, max_bound=rng.choice([2, 4, 8]))
    direct = allow is None and rng.random() < 0.35
    if direct:
        # one temporal operator (wide windows, positive lower bounds included) over shallow operands, possibly under one more
        k = rng.choice(["tb1", "tb1", "tb2", "t2", "t1"])
        a = rng.randint(0, 4)
        b = a + rng.randint(0, 8)
        sub = lambda: g.formula(rng.choice([0, 0, 1]))  # noqa: E731
        if k == "tb1":
            f = ("tb1", rng.choice(["once", "hist", "ev", "alw"]), a, b, sub())
        elif k == "tb2":
            f = ("tb2", rng.choice(["since", "until"]), a, b, sub(), sub())
        elif k == "t2":
            f = ("t2", rng.choice(["since", "until"]), sub(), sub())
        else:
            f = ("t1", rng.choice(["once", "hist", "ev", "alw"]), sub())
        r = rng.random()
        if r < 0.15:
            f = ("u", "not", f)
        elif r < 0.3:
            f = ("b", rng.choice(["and", "or"]), f, g.formula(1))
        elif r < 0.4:
            a2 = rng.randint(0, 2)
            f = ("tb1", rng.choice(["once", "hist", "ev", "alw"]), a2, a2 + rng.randint(0, 3), f)
    elif allow is None and rng.random() < 0.2:
        # an unbounded temporal operator whose operand contains another unbounded temporal operator (scratch state that the
        # visit methods of the same direction share must not leak from the inner to the outer one)
        def un(x):
            k = rng.choice(["once", "hist", "ev", "alw", "since", "until"])
            if k in ("since", "until"):
                y = g.formula(rng.choice([0, 1]))
                return ("t2", k, x, y) if rng.random() < 0.5 else ("t2", k, y, x)
            return ("t1", k, x)
        inner = un(g.formula(rng.choice([0, 1])))
        r = rng.random()
        if r < 0.4:
            inner = ("b", rng.choice(["and", "or", "implies"]), g.formula(rng.choice([0, 1])), inner)
        elif r < 0.6:
            inner = ("b", rng.choice(["and", "or", "implies"]), inner, g.formula(rng.choice([0, 1])))
        elif r < 0.7:
            inner = ("u", "not", inner)
        f = un(inner)
    elif allow is None and rng.random() < 0.12:
        # variables used directly as formulas, one of them under `not` / unary minus / abs, and read again by another operator
        # (a visitor that hands back or changes the list of its operand shows only then)
        x = ("v", rng.choice(D.VARS[:2]))
        u = ("u", rng.choice(["not", "not", "negate", "abs"]), x)
        a = rng.randint(0, 2)
        other = rng.choice([("tb1", rng.choice(["once", "hist", "ev", "alw"]), a, a + rng.randint(0, 3), x),
                            ("t1", rng.choice(["once", "hist", "ev", "alw"]), x), x, ("b", "ge", x, ("c", rng.choice([0.0, 1.0])))])
        op = rng.choice(["and", "or", "implies"])
        f = ("b", op, u, other) if rng.random() < 0.6 else ("b", op, other, u)
    else:
        f = g.formula(rng.choice([1, 2, 2, 3, 4]))
    sugar = None
    if allow is None and rng.random() < 0.06:
        # the sugar `p unless[a,b] q` (the parser expands it to `always[0,b] p or p until[a,b] q`)
        p_, q_ = g.formula(rng.choice([0, 1])), g.formula(rng.choice([0, 1]))
        a_ = rng.randint(0, 4)
        b_ = a_ + rng.randint(0, 4)
        f = ("b", "or", ("tb1", "alw", 0, b_, p_), ("tb2", "until", a_, b_, p_, q_))
        sugar = "out = ((%s) unless[%s,%s] (%s))" % (F.to_text(p_, bound=D.bound_txt), D.bound_txt(a_), D.bound_txt(b_), F.to_text(q_, bound=D.bound_txt))
        direct = False
    vs = F.variables(f) or ["x"]
    aligned = rng.random() < 0.8
    sig = D.gen_signals(rng, vs, aligned_start=aligned)
    if rng.random() < 0.4:
        sig = {v: [(t, x) for (t, _), x in zip(s_, pattern_values(rng, len(s_)))] for v, s_ in sig.items()}
    units_seed = rng.randint(0, 10 ** 6) if sugar is None and rng.random() < 0.15 and any(x[0] in ("tb1", "tb2") for x in F.subformulas(f)) else None
    return {"f": f, "sig": sig, "units_seed": units_seed, "text": sugar,
            "stream": ("off-c/direct" if direct else "off-c") + ("" if aligned else "/starts") + ("/units" if units_seed is not None else "")}


# ---------------------------------------------------------------------------------------------------------------------------
# off-c/reuse: one specification object, named sub-specifications, several traces in a row (some of which raise)
# ---------------------------------------------------------------------------------------------------------------------------
PARTIAL = {  # kind -> (term over the variable, values on which it is defined, values on which evaluate() raises)
    "sqrt": (lambda v: ("u", "sqrt", ("v", v)), (0.0, 0.25, 1.0, 2.25, 4.0, 9.0), (-0.5, -1.0, -4.0)),
    "ln": (lambda v: ("u", "ln", ("v", v)), (0.5, 1.0, 2.0, 4.0), (-0.5, -1.0, -2.0)),
    "div": (lambda v: ("b", "div", ("c", 1.0), ("v", v)), (-2.0, -1.0, -0.5, 0.5, 1.0, 2.0, 4.0), (0.0,)),
}


def is_term(f, env):
    """The body is an arithmetic expression (not a formula); names are looked up in `env`."""
    if f[0] == "v":
        return is_term(env[f[1]], env) if f[1] in env else True
    return f[0] == "c" or (f[0] == "u" and f[1] != "not") or (f[0] == "b" and f[1] in F.ARITH)


def gen_reuse_case(rng):
    """`gen_reuse_case1` with at most two since / until operators in the inlined formula (the point-wise reference semantics is
    exponential in their nesting; the sub-stream is about the object that is used again, not about deep formulas)."""
    for _ in range(50):
        c = gen_reuse_case1(rng)
        if sum(1 for x in F.subformulas(c["f"]) if x[0] in ("t2", "tb2")) <= 2 and F.size(c["f"]) <= 40:
            break
    return c


def gen_reuse_case1(rng):
    """A modular specification `p0 = ..; [p1 = ..;] out = ..` in which an assignment after the first one contains a partial
    term (sqrt x, ln x, 1 / x) over a variable, and a batch of traces for one object of it: the variable of the partial term
    takes only values of the term's domain in the `clean` traces and one value outside of it in the others."""
    from .. import modular as M
    g = D.DGen(rng, D.VARS, D.DENSE_OFF, max_bound=rng.choice([2, 4, 8]))
    f = g.formula(2)
    for _ in range(20):
        f = g.formula(rng.choice([2, 2, 3]))
        if F.size(f) >= 4 and F.variables(f):
            break
    defs = M.add_repeats(rng, M.decompose(rng, f, prob=0.5, limit=3))
    if len(defs) == 1:
        other = g.formula(rng.choice([0, 1]))
        ref = rng.choice([("v", "p0"), ("u", "not", ("v", "p0"))])
        defs = [("p0", f), ("out", ("b", rng.choice(["and", "or", "implies"]), ref, other) if rng.random() < 0.6
                        else ("b", rng.choice(["and", "or", "implies"]), other, ref))]
    kind = rng.choice(["sqrt", "sqrt", "ln", "div"])
    term, good, bad = PARTIAL[kind]
    pv = rng.choice(D.VARS[:2])
    guard = ("b", rng.choice(["le", "ge", "lt", "gt"]), term(pv), ("c", rng.choice([0.5, 1.0, 2.0, 3.0])))
    # never the first assignment (a named sub-specification is evaluated before it), and an assignment that names a formula
    # (a named arithmetic expression may be the operand of a sqrt / ln whose argument the generator keeps positive)
    k = rng.choice([i for i in range(1, len(defs)) if not is_term(defs[i][1], dict(defs))])
    nm, body = defs[k]
    op = rng.choice(["and", "or", "implies"])
    defs = defs[:k] + [(nm, ("b", op, body, guard) if rng.random() < 0.6 else ("b", op, guard, body))] + defs[k + 1:]
    inl = M.inline(defs)
    vs = sorted(F.variables(inl["out"]))
    plan = rng.choice([(1, 0), (1, 0), (1, 0), (0, 1, 0), (1, 0, 0), (1, 1, 0), (0, 0), (0, 0, 0)])   # 1 = a trace that raises
    traces = []
    for glitch in plan:
        sig = D.gen_signals(rng, vs, aligned_start=True)
        if rng.random() < 0.3:
            sig = {v: [(t, x) for (t, _), x in zip(s_, pattern_values(rng, len(s_)))] for v, s_ in sig.items()}
        s_ = [(t, rng.choice(good)) for (t, _) in sig[pv]]
        if glitch:
            i = rng.randrange(len(s_))
            s_[i] = (s_[i][0], rng.choice(bad))
        sig[pv] = s_
        traces.append(sig)
    return {"monitor": "offc", "defs": defs, "inl": inl, "f": inl["out"], "vars": vs, "style": rng.choice(["text", "text", "sub_spec"]),
            "traces": traces, "glitch": list(plan), "stream": "off-c/reuse" + ("/after-exception" if any(plan) else "")}


def run_reuse(case):
    """One specification object, one evaluate() per trace in the order given; an exception of one evaluation is recorded and the
    batch goes on.  Every result is copied when it is returned.  -> ('ok', [outcome per trace]) | outcome of building the object."""
    import copy
    from ..impl import RTAMTException

    def go():
        spec = D.dense_build(case, modular=True)
        outs = []
        for sig in case["traces"]:
            try:
                outs.append(("ok", copy.deepcopy(spec.evaluate(*[[v, D.py_sig(sig[v])] for v in case["vars"]]))))
            except (impl.CaseTimeout, common.HarnessError):
                raise
            except RTAMTException as e:
                outs.append(("rtamt", str(e)))
            except Exception as e:  # noqa: BLE001
                outs.append(("other", type(e).__name__, str(e)[:200]))
        return outs
    return impl.guarded(go)


def reuse_rep(case, j, out):
    return {"monitor": "offc", "spec": D.mod_rep(dict(case, sig=case["traces"][j]))["spec"], "formula": F.to_proto(case["f"]),
            "signals": D.sig_rep(case["traces"][j]), "impl": out,
            "reuse": {"defs": [[nm, F.to_proto(b)] for nm, b in case["defs"]], "style": case["style"],
                      "traces": [D.sig_rep(s_) for s_ in case["traces"]], "glitch": case["glitch"], "judged": j}}


def judge_batch(ctx, items):
    """items: (formula, signals, text, outcome of evaluate(), replay object, stream).  The comparison of `D.compare_offline_batch`
    (non-decreasing stamps, start of the domain, rhoD at the query times) for results obtained elsewhere; two driver calls for
    all items.  -> [Violation | None | 'undef']."""
    doms = D.model_query([(f, sig, []) for f, sig, _, _, _, _ in items])
    res_all, pend = {}, []
    for k, ((f, sig, text, out, rep, stream), (_, dom, end)) in enumerate(zip(items, doms)):
        if out[0] != "ok":
            res_all[k] = Violation("dense offline evaluate() raised %r: %s" % (out[1:], text), rep, stream=stream)
            continue
        times = [Fraction(p[0]) for p in out[1]]
        if any(b < a for a, b in zip(times, times[1:])):
            res_all[k] = Violation("dense offline output time stamps decrease: %r: %s" % ([float(t) for t in times], text), rep, stream=stream)
            continue
        pend.append((k, D.query_times(sig, f, [t for t in times if t != float("inf")], dom, end), dom, end))
    vals_all = D.model_query([(items[k][0], items[k][1], qs) for k, qs, _, _ in pend])
    for (k, qs, dom, end), (vals, _, _) in zip(pend, vals_all):
        f, sig, text, out, rep, stream = items[k]
        res = out[1]
        rep.update({"domain": [str(dom), str(end)], "model_at": [[str(q), v] for q, v in zip(qs, vals)]})
        samples = [(Fraction(p[0]), p[1]) for p in res]
        if not res or Fraction(res[0][0]) != dom:
            res_all[k] = Violation("dense offline output starts at %r, the common input domain starts at %s: %s"
                                   % (res[0][0] if res else None, dom, text), rep, stream=stream)
            continue
        verdict = None
        for q, mv in zip(qs, vals):
            iv = D.step_value(samples, q)
            if mv is None:
                raise common.HarnessError("model undefined inside the domain at %s for %s" % (q, text))
            if mv != mv or (iv is not None and iv != iv):
                verdict = "undef"
                break
            if iv is None or not common.num_eq(iv, mv):
                verdict = Violation("dense offline value at t=%s is %r, the dense semantics gives %r: %s" % (q, iv, mv, text), rep, stream=stream)
                break
        if verdict is None:
            vs = [D.step_value(samples, q) for q in qs]
            if any(v not in (common.INF, -common.INF) for v in vs) or len(set(vs)) > 1:
                ctx.nontrivial.add((text, tuple((v, tuple(sig[v])) for v in sorted(sig))))
        res_all[k] = verdict
    return [res_all[k] for k in range(len(items))]


def check_reuse(ctx, cases):
    """-> [(case, index of the judged trace, Violation | None | 'undef')] for every well-formed trace of every batch."""
    items, where = [], []
    for c in cases:
        outs = run_reuse(c)
        if outs[0] != "ok":           # the object could not be built / parsed
            items.append((c["f"], c["traces"][0], D.mod_rep(dict(c, sig=c["traces"][0]))["spec"], outs, reuse_rep(c, 0, outs), c["stream"]))
            where.append((c, 0))
            continue
        for j, (sig, glitch, out) in enumerate(zip(c["traces"], c["glitch"], outs[1])):
            if glitch:                # outside the domain of the partial term: rhoD is undefined there, nothing is claimed
                ctx.count("reuse:trace-raises" if out[0] != "ok" else "reuse:glitch-trace-evaluates")
                continue
            if disc.known_region(ctx, {"f": c["f"], "sig": sig}, REGIONS):
                ctx.skipped_known += 1
                continue
            rep = reuse_rep(c, j, out)
            rep["reuse"]["outcomes_before"] = [o if o[0] != "ok" else ["ok"] for o in outs[1][:j]]
            items.append((c["f"], sig, rep["spec"] + "   [trace %d of %d on one specification object%s]"
                          % (j + 1, len(c["traces"]), ", after an evaluation that raised" if any(o[0] != "ok" for o in outs[1][:j]) else ""),
                          out, rep, c["stream"]))
            where.append((c, j))
    return [(c, j, v) for (c, j), v in zip(where, judge_batch(ctx, items))] if items else []


def shrink_reuse(ctx, case, j):
    """Smaller batch that still fails on its last trace: drop the traces after the judged one, then traces before it, then samples."""
    def fails(c):
        try:
            r = check_reuse(Ctx(ctx.id, ctx.tier, ctx.seed), [c])
        except common.HarnessError:
            return None
        r = [v for (_, jj, v) in r if jj == len(c["traces"]) - 1 and isinstance(v, Violation)]
        return r[0] if r else None
    cur = dict(case, traces=case["traces"][:j + 1], glitch=case["glitch"][:j + 1])
    best = fails(cur)
    if best is None:
        return None
    budget = 24
    i = 0
    while i < len(cur["traces"]) - 1 and budget > 0:
        cand = dict(cur, traces=cur["traces"][:i] + cur["traces"][i + 1:], glitch=cur["glitch"][:i] + cur["glitch"][i + 1:])
        budget -= 1
        v = fails(cand)
        if v is not None:
            cur, best = cand, v
        else:
            i += 1
    for ti in range(len(cur["traces"])):
        for var in sorted(cur["traces"][ti]):
            k = 1
            while k < len(cur["traces"][ti][var]) - 1 and budget > 0:          # first and last stamp stay (domain)
                s_ = cur["traces"][ti][var]
                tr =dict(cur["traces"][ti], **{var: s_[:k] + s_[k + 1:]})
                cand = dict(cur, traces=cur["traces"][:ti] + [tr] + cur["traces"][ti + 1:])
                budget -= 1
                v = fails(cand)
                if v is not None:
                    cur, best = cand, v
                else:
                    k += 1
    return best


def explore_reuse(ctx, rng, count):
    cases = [gen_reuse_case(rng) for _ in range(count)]
    for c in cases:
        ctx.count("reuse:batches")
        ctx.count("reuse:subspecs=%d" % (len(c["defs"]) - 1))
        ctx.count("reuse:style=" + c["style"])
    for c, j, v in check_reuse(ctx, cases):
        ctx.evaluations += 1
        ctx.count("stream:" + c["stream"])
        for op in set(F.ops(c["f"])):
            ctx.count("op:" + op)
        if v == "undef":
            ctx.skipped_undef += 1
        elif v is None:
            ctx.traces_validated += 1
        else:
            ctx.violations.append(shrink_reuse(ctx, c, j) or v)
            if len(ctx.violations) >= 3:
                return


def explore(ctx, rng, count):
    cases, known = [], []
    for _ in range(count):
        c = gen_case(rng)
        if disc.known_region(ctx, c, REGIONS):
            ctx.skipped_known += 1
            if c["units_seed"] is None:
                known.append(c)
            continue
        cases.append(c)
    D.compare_mirror_only(ctx, known)
    for c, v in D.compare_offline_batch(ctx, cases):
        ctx.evaluations += 1
        ctx.count("stream:" + c["stream"])
        for op in set(F.ops(c["f"])):
            ctx.count("op:" + op)
        if v is None:
            ctx.traces_validated += 1
            if len(ctx.samples) < 3 and F.depth(c["f"]) >= 3:
                ctx.sample({"spec": D.spec_text(c["f"]), "signals": {k: D.py_sig(s) for k, s in c["sig"].items()}})
        else:
            ctx.violations.append(v)
            if len(ctx.violations) >= 3:
                return


def replay(ctx, obj):
    if obj.get("reuse"):
        from .. import modular as M
        r = obj["reuse"]
        defs = [(nm, F.from_proto(b)) for nm, b in r["defs"]]
        inl = M.inline(defs)
        traces = [D.sig_of_rep(s_) for s_ in r["traces"]]
        case = {"monitor": "offc", "defs": defs, "inl": inl, "f": inl["out"], "vars": sorted(traces[0]), "style": r["style"],
                "traces": traces, "glitch": r["glitch"], "stream": "replay"}
        bad = [v for (_, j, v) in check_reuse(Ctx(ctx.id, ctx.tier, ctx.seed), [case]) if isinstance(v, Violation) and j == r["judged"]]
        return (not bad), (bad[0].what if bad else "every well-formed trace of the batch on one specification object equals the dense semantics")
    f = F.from_proto(obj["formula"])
    sig = {v: [(Fraction(t), float(x)) for t, x in s] for v, s in obj["signals"].items()}
    if obj.get("units_seed") is not None or obj.get("sugar_text"):
        (c, v), = D.compare_offline_batch(Ctx(ctx.id, ctx.tier, ctx.seed), [{"f": f, "sig": sig, "stream": "replay", "units_seed": obj.get("units_seed"), "text": obj.get("sugar_text")}])
    else:
        v = D.compare_offline(Ctx(ctx.id, ctx.tier, ctx.seed), f, sig, "replay")
    return (v is None), (v.what if v else "dense offline result equals the dense semantics on the replayed case")


def extension_stream(ctx):
    """C16 (dense): settled values are stable under extension of the signals."""
    D.extension_stream(ctx)


def run(ctx):
    explore(ctx, ctx.subrng("off-c"), ctx.budget(1200, 12000))
    if len(ctx.violations) < 3:
        explore_reuse(ctx, ctx.subrng("off-c/reuse"), ctx.budget(36, 600))


def search(ctx):
    explore(ctx, ctx.subrng("search"), ctx.budget(2500, 12000))
    if len(ctx.violations) < 3:
        explore_reuse(ctx, ctx.subrng("search/reuse"), ctx.budget(150, 600))
