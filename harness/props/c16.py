"""C16 — settled offline results are stable under trace extension.

Tie (discrete): for generated bounded-future specifications, a trace w1 and random extensions w2,
the implementation's evaluate() on w1 and on w2 must agree at every t with t + hor < |w1|
(hor from the model, = the pastifier horizon), and both must equal the model's rho.
Dense time: the same metamorphic check on the dense-time offline monitor (stream `ext-c`).
"""
from .. import common, formula as F, impl, disc
from ..engine import Violation, Ctx

RULE = ("discrete: typed random formulas without unbounded future (depth<=4, bounds 0..4, next allowed), trace w1 of length "
        "1..10 and 2 random extensions by 1..6 samples; compared at all t with t+hor<|w1|; stream ext-d/shared-var: one variable read as a bare operand "
        "by a bounded since (or another temporal operator) and again by a sibling / enclosing / nested operator or as both operands, "
        "trace length 2..12. dense: see stream ext-c. distinct by "
        "(spec, w1, w2); non-trivial when at least one settled position exists and the settled values are not all +-inf.")
EXPLANATION = ("theorems: C16_settled (rho at t is determined by samples 0..t+hor, any two trace lengths), C16_futureFree_hor, "
               "C16_offline_extension (transfer to the offline evaluator through C01). Correspondence: evaluate() on w1 and on "
               "extensions of w1, against each other and against rho.")
ASSUMPTIONS = ["bounded linear order (no NaN) for the transfer theorem; C16_settled itself needs no order laws"]

VARS = ["a", "b", "c"]
ALLOW = {"arith", "cmp", "bool", "iffxor", "event", "past", "future", "bpast", "bfuture", "since", "bsince", "buntil", "not"}
REGIONS = {}


def gen_case(rng):
    g = F.Gen(rng, VARS, ALLOW, max_bound=rng.choice([2, 3, 4]))
    f = g.formula(rng.choice([1, 2, 3, 4]))
    direct_until = rng.random() < 0.12
    if direct_until:
        a_ = rng.randint(0, 3)
        f = ("tb2", "until", a_, a_ + rng.randint(0, 3), g.formula(rng.choice([0, 1])), g.formula(rng.choice([0, 1])))
        if rng.random() < 0.4:
            f = ("b", rng.choice(["and", "or"]), f, g.formula(1))
    n1 = rng.randint(1, 10)
    vs = F.variables(f) or ["a"]
    w1 = F.gen_trace(rng, vs, n1)
    exts = []
    for _ in range(2):
        k = rng.randint(1, 6)
        tail = F.gen_trace(rng, vs, k, vals=(-9.0, -3.0, 0.0, 3.0, 9.0, 100.0, -100.0))
        exts.append({v: w1[v] + tail[v] for v in vs})
    case = {"stream": "ext-d", "f": f, "n": n1, "data": w1, "exts": exts, "decl": vs}
    if (direct_until or rng.random() < 0.25) and any(x[0] in ("tb1", "tb2") for x in F.subformulas(f)):
        # the same specification with its bounds spelled with explicit units (on either / both ends, bounded until also as the
        # sugar `unless`) under a random default unit and sampling period: the horizon is a duration, not a numeral
        from . import c08
        unit, period, punit = rng.choice(c08.configs(rng))
        case["render"] = [rng.randint(0, 10 ** 6), unit, str(period), punit, rng.random() < (0.8 if direct_until else 0.5)]
        case["stream"] = "ext-d/units"
    elif rng.random() < 0.15 and any(x[0] in ("tb1", "tb2") for x in F.subformulas(f)):
        # one object, evaluated, then given another sampling period, then evaluated on w1 and on its extensions: bounds written
        # as durations (2k s), first period 1 s, then 2 s - the horizon is k samples again
        case["reconf"] = True
        case["stream"] = "ext-d/reconfigured"
    return case


def shared_var_formula(rng, g):
    """One variable read DIRECTLY (a bare variable as operand, no predicate in between) by a temporal operator - most often a
    bounded since - and read again later in the traversal: by a right sibling, by an enclosing operator, by a nested bounded
    since, or as the other operand of the same operator.  What an operator does with the list it gets from the variable node
    (the list of the data set itself) must not be seen by the later reader: a pure-past value at t would then depend on how
    long the trace is.  No unbounded future operator is produced."""
    x = ("v", rng.choice(VARS))
    others = [("v", v) for v in VARS if v != x[1]]

    def bnd():
        a = rng.randint(0, 2)
        return a, a + rng.randint(0 if a else 1, 3)

    def operand(d):
        u = rng.random()
        if u < 0.5:
            return x
        if u < 0.7:
            return rng.choice(others)
        if u < 0.88 or d <= 0:
            return g.formula(1)
        return temporal(d - 1)

    def bsince(l, r):
        a, b = bnd()
        return ("tb2", "since", a, b, l, r)

    def temporal(d, force=False):
        k = "bsince" if force else rng.choice(["bsince", "bsince", "bsince", "buntil", "tb1", "tb1", "t1", "since"])
        if k == "bsince":
            l, r = operand(d), operand(d)
            if force and x not in (l, r):
                l, r = (x, r) if rng.random() < 0.5 else (l, x)
            return bsince(l, r)
        a, b = bnd()
        if k == "buntil":
            return ("tb2", "until", a, b, operand(d), operand(d))
        if k == "tb1":
            return ("tb1", rng.choice(F.TB1_PAST + F.TB1_PAST + F.TB1_FUT), a, b, operand(d))
        if k == "t1":
            return ("t1", rng.choice(["prev", "sprev", "once", "hist", "next", "snext", "rise", "fall"]), operand(d))
        return ("t2", "since", operand(d), operand(d))

    def reader():
        """a later reader of x: the bare variable, a predicate over it, or another temporal operator on it"""
        u = rng.random()
        if u < 0.2:
            return x
        if u < 0.35:
            return ("b", rng.choice(F.CMP), x, rng.choice(others + [("c", 0.0), ("c", 1.0)]))
        if u < 0.8:
            a, b = bnd()
            return ("tb1", rng.choice(F.TB1_PAST + F.TB1_PAST + F.TB1_FUT), a, b, x)
        return temporal(0)

    bop = lambda: rng.choice(["and", "or", "implies", "and"])      # noqa: E731
    first = temporal(1, force=rng.random() < 0.65)
    shape = rng.choice(["sibling", "sibling", "sibling", "enclosing", "enclosing", "nested", "same"])
    if shape == "sibling":
        f = ("b", bop(), first, reader())
        if rng.random() < 0.3:
            f = ("b", bop(), f, reader())
    elif shape == "enclosing":
        inner = ("b", bop(), first, reader()) if rng.random() < 0.5 else first
        u = rng.random()
        a, b = bnd()
        if u < 0.35:
            f = ("tb1", rng.choice(F.TB1_PAST), a, b, inner)
            if inner is first:
                f = ("b", bop(), f, reader())
        elif u < 0.7:
            f = ("tb2", "since", a, b, inner, x)
        elif u < 0.85:
            f = ("t2", "since", inner, x)
        else:
            f = ("tb2", rng.choice(["since", "until"]), a, b, x, inner)
    elif shape == "nested":
        y = rng.choice(others + [x])
        inner = bsince(x, y) if rng.random() < 0.6 else bsince(y, x)
        f = bsince(x, inner) if rng.random() < 0.5 else bsince(inner, x)
        if rng.random() < 0.3:
            f = ("b", bop(), f, reader())
    else:
        f = bsince(x, x)
        if rng.random() < 0.6:
            f = ("b", bop(), f, reader())
    return f


def gen_shared_var_case(rng):
    """stream `ext-d/shared-var`: see shared_var_formula; traces of length 2..12 and two extensions, as in gen_case"""
    g = F.Gen(rng, VARS, ALLOW, max_bound=rng.choice([2, 3]))
    f = shared_var_formula(rng, g)
    n1 = rng.randint(2, 12)
    vs = F.variables(f) or ["a"]
    w1 = F.gen_trace(rng, vs, n1)
    exts = []
    for _ in range(2):
        k = rng.randint(1, 6)
        tail = F.gen_trace(rng, vs, k, vals=(-9.0, -3.0, 0.0, 3.0, 9.0, 100.0, -100.0))
        exts.append({v: w1[v] + tail[v] for v in vs})
    return {"stream": "ext-d/shared-var", "f": f, "n": n1, "data": w1, "exts": exts, "decl": vs}


def const_bound_spelling(rng, a, b, unit, u, pns, consts):
    """The interval [a,b] (samples of `pns` ns) with ONE bound written with the explicit unit `u` (another unit than the default
    unit `unit` of the specification) and the OTHER bound a declared constant without a unit of its own: by the rule for a
    missing unit the constant is a number of `u` (the unit of the other bound), not of the default unit.  Mostly the constant is
    the upper bound (`[500ms,K0]`); mirrored (`[K0,2000ms]`) otherwise."""
    from . import c08
    lo, hi = c08.dec(a * pns / c08.NS[u]), c08.dec(b * pns / c08.NS[u])
    nm = "K%d" % len(consts)
    if rng.random() < 0.7 or a == 0:
        consts.append([nm, "float" if "." in hi else "int", hi])
        return lo + u, nm, "upper"
    consts.append([nm, "float" if "." in lo else "int", lo])
    return nm, hi + u, "lower"


def const_bound_text(rng, f, bound, unit, u, pns, consts):
    """Text of f = [and/or] (bounded future operator), the interval of that operator spelled by const_bound_spelling, every
    other interval by `bound` (numerals in the default unit).  Returns (text, which bound is the constant)."""
    if f[0] == "b":
        t, which = const_bound_text(rng, f[2], bound, unit, u, pns, consts)
        return "((%s) %s (%s))" % (t, F.BIN_TXT[f[1]], F.to_text(f[3], bound)), which
    lo, hi, which = const_bound_spelling(rng, f[2], f[3], unit, u, pns, consts)
    if f[0] == "tb1":
        return "(%s[%s,%s] (%s))" % (F.T1_TXT[f[1]], lo, hi, F.to_text(f[4], bound)), which
    return "((%s) %s[%s,%s] (%s))" % (F.to_text(f[4], bound), f[1], lo, hi, F.to_text(f[5], bound)), which


def const_bound_formula(rng, g):
    """A bounded eventually / always / until with b > a directly over shallow operands, sometimes under and / or."""
    a = rng.randint(0, 2)
    b = a + rng.randint(1, 3)
    opnd = lambda: ("b", rng.choice(F.CMP), ("v", rng.choice(VARS)), ("c", float(rng.choice([0, 0, 1, 3])))) if rng.random() < 0.6 else g.formula(rng.choice([0, 1]))  # noqa: E731
    if rng.random() < 0.75:
        f = ("tb1", rng.choice(F.TB1_FUT), a, b, opnd())
    else:
        f = ("tb2", "until", a, b, opnd(), opnd())
    if rng.random() < 0.3:
        f = ("b", rng.choice(["and", "or"]), f, g.formula(rng.choice([0, 1])))
    return f


def gen_const_bound_case(rng):
    """stream `ext-d/const-bound`: the horizon comes from an interval with one explicit unit (not the default unit) and one
    declared constant without unit; default unit and explicit unit are neighbours (factor 1000), the period is a multiple of
    the smaller one.  Traces of length hor+1..hor+8 (settled positions exist), two extensions as in gen_case."""
    from fractions import Fraction
    from . import c08
    g = F.Gen(rng, VARS, ALLOW, max_bound=2)
    f = const_bound_formula(rng, g)
    i = rng.randint(0, len(c08.UNITS) - 2)
    unit, u = (c08.UNITS[i], c08.UNITS[i + 1]) if rng.random() < 0.7 else (c08.UNITS[i + 1], c08.UNITS[i])
    small = c08.UNITS[i + 1]
    pns = Fraction(rng.choice([1, 2, 5, 250, 500, 1000])) * c08.NS[small]
    punit = small if rng.random() < 0.7 else "ns"
    period = pns / c08.NS[punit]
    consts = []
    bound = lambda k: c08.dec(k * pns / c08.NS[unit])      # noqa: E731
    text, which = const_bound_text(rng, f, bound, unit, u, pns, consts)
    top = f[2] if f[0] == "b" else f
    n1 = top[3] + rng.randint(1, 8)
    vs = F.variables(f) or ["a"]
    w1 = F.gen_trace(rng, vs, n1)
    exts = []
    for _ in range(2):
        k = rng.randint(1, 6)
        tail = F.gen_trace(rng, vs, k, vals=(-9.0, -3.0, 0.0, 3.0, 9.0, 100.0, -100.0))
        exts.append({v: w1[v] + tail[v] for v in vs})
    return {"stream": "ext-d/const-bound", "f": f, "n": n1, "data": w1, "exts": exts, "decl": vs,
            "cb": ["out = " + text, unit, str(period), punit, consts, which]}


def explore_dense_const_bound(ctx, rng, count):
    """stream `ext-c/const-bound`: the same spelling on the dense-time offline monitor (default unit s, one bound unit of the
    dense generator lasts D.SCALE s): `[250ms,K0]` with `const int K0 = 1000`.  Settled region and comparison as in the dense
    extension stream (D.check_extension): t + h < end of w1, nothing else is compared."""
    from . import c08
    from .. import dense as D
    for _ in range(count):
        g = D.DGen(rng, D.VARS[:2], D.DENSE_OFF - {"ufuture", "until"}, max_bound=2)
        a = rng.randint(0, 3)
        f = ("tb1", rng.choice(F.TB1_FUT), a, a + rng.randint(1, 4), g.formula(rng.choice([0, 0, 1])))
        if rng.random() < 0.3:
            f = ("b", rng.choice(["and", "or"]), f, g.formula(rng.choice([0, 1])))
        vs = F.variables(f) or ["x"]
        w1 = D.gen_signals(rng, vs)
        end1 = max(s[-1][0] for s in w1.values())
        w2 = {}
        for v in vs:
            tail = D.gen_signal(rng, end1 + D.GRID * rng.choice([1, 2, 4]), nmax=4)
            w2[v] = w1[v] + [(t, rng.choice((-9.0, 9.0, 100.0, -100.0, 0.0))) for (t, _) in tail]
        consts = []
        text, which = const_bound_text(rng, f, D.bound_txt, "s", rng.choice(["ms", "ms", "us"]), int(D.SCALE * 10 ** 9), consts)
        ctx.evaluations += 1
        ctx.count("stream:ext-c/const-bound")
        ctx.count("const-bound:" + which)
        v = check_dense_const_bound(ctx, f, w1, w2, "out = " + text, consts)
        if v is None:
            ctx.traces_validated += 1
        else:
            ctx.violations.append(v)
            if len(ctx.violations) >= 3:
                return


def check_dense_const_bound(ctx, f, w1, w2, text, consts):
    from .. import dense as D
    extra = {"consts": [tuple(c) for c in consts]}
    _, o1 = D.eval_offline(f, w1, text=text, extra=extra)
    _, o2 = D.eval_offline(f, w2, text=text, extra=extra)
    h = D.dense_horizon(f)
    rep = {"monitor": "offc", "dense_cb": [text, consts], "spec": text, "formula": F.to_proto(f), "w1": D.sig_rep(w1), "w2": D.sig_rep(w2),
           "horizon": str(h), "impl_w1": o1, "impl_w2": o2}
    if o1[0] != "ok" or o2[0] != "ok":
        return Violation("dense offline raised %r / %r: %s (consts %r)" % (o1[:2], o2[:2], text, consts), rep, stream="ext-c/const-bound")
    dom, end1 = D.domain_of(f, w1)
    if h is None or end1 is None or end1 - h <= dom:
        return None
    hi = end1 - h - D.GRID / 2          # strictly inside: t + h < end of w1
    if hi < dom:
        return None
    d = D.step_equal(D.samples_of(o1[1]), D.samples_of(o2[1]), dom, hi)
    if d:
        return Violation("settled value at t=%s (horizon %s, end of w1 %s) changes from %r to %r when the signals are extended: %s (consts %r)"
                         % (d[0], h, end1, d[1], d[2], text, consts), rep, stream="ext-c/const-bound")
    ctx.nontrivial.add((text, str(rep["w1"])))
    return None


def shrink_violation(ctx, case, v):
    """A smaller failing case (plain cases only: text = to_text(f), fresh object): samples of w1 dropped, sub-formulas replaced
    by children, bounds and values reduced; the extensions keep their tails behind the shrunk w1."""
    if case.get("render") or case.get("reconf") or case.get("cb"):
        return v
    n0 = case["n"]
    tails = [{k: list(e[k][n0:]) for k in e} for e in case["exts"]]
    scratch = Ctx(ctx.id, ctx.tier, ctx.seed)

    def complete(cc):
        return dict(cc, exts=[{k: list(cc["data"][k]) + t[k] for k in cc["data"]} for t in tails])

    def fails(cc):
        cc = complete(cc)
        (hor, m_rho), = model([cc])
        return check_case(scratch, cc, hor, m_rho) is not None
    c2 = complete(disc.shrink_case(case, fails, budget=60))
    try:
        (hor, m_rho), = model([c2])
        v2 = check_case(scratch, c2, hor, m_rho)
    except common.HarnessError:
        v2 = None
    return v2 or v


def check_case(ctx, case, hor, m_rho1):
    f, n1, w1 = case["f"], case["n"], case["data"]
    text = "out = " + F.to_text(f)
    kw = {}
    if case.get("render"):
        import random
        from fractions import Fraction
        from . import c08
        seed, unit, period, punit, unl = case["render"]
        period = Fraction(period)
        text = c08.render(random.Random(seed), f, unit, period * c08.NS[punit], [], unl)
        kw = dict(unit=unit, sampling=(int(period) if period.denominator == 1 else float(period), punit, 0.1), limit=8.0, timeout_is_outcome=True)
    if case.get("cb"):
        from fractions import Fraction
        text, unit, period, punit, consts = case["cb"][:5]
        period = Fraction(period)
        kw = dict(unit=unit, sampling=(int(period) if period.denominator == 1 else float(period), punit, 0.1), limit=8.0, timeout_is_outcome=True,
                  consts=[tuple(c) for c in consts])
    reconf_obj = None
    if case.get("reconf"):
        text = "out = " + F.to_text(f, bound=lambda k: str(2 * k))

        def first():
            spec = impl.make_spec("offd", text, case["decl"])
            spec.parse()
            ds = {"time": list(range(n1))}
            ds.update({v: list(w1[v]) for v in case["decl"]})
            spec.evaluate(ds)
            spec.set_sampling_period(2, "s", 0.1)
            return spec
        r0 = impl.guarded(first)
        if r0[0] == "ok":
            reconf_obj = r0[1]

    def evaluate(w, n):
        if reconf_obj is None:
            return impl.eval_offline_discrete(text, case["decl"], w, n, **kw)

        def go():
            ds = {"time": list(range(n))}
            ds.update({v: list(w[v]) for v in case["decl"]})
            return reconf_obj.evaluate(ds)
        return impl.guarded(go)
    o1 = evaluate(w1, n1)
    rep = {"reconf": bool(case.get("reconf")), "render": case.get("render"), "cb": case.get("cb"), "spec": text, "formula": F.to_proto(f), "n": n1, "data": w1, "exts": case["exts"], "horizon": hor, "impl_w1": o1}
    if o1[0] != "ok":
        return Violation("evaluate() raised %r on %s" % (o1[1:], text), rep, stream=case["stream"])
    v1 = [p[1] for p in o1[1]]
    settled = [t for t in range(n1) if t + hor < n1]
    if settled and disc.nontrivial([v1[t] for t in settled]):
        ctx.nontrivial.add(disc.data_key(text, w1))
    for w2 in case["exts"]:
        n2 = len(next(iter(w2.values())))
        o2 = evaluate(w2, n2)
        ctx.evaluations += 1
        rep2 = dict(rep, w2=w2, impl_w2=o2)
        if o2[0] != "ok":
            return Violation("evaluate() raised %r on the extension: %s" % (o2[1:], text), rep2, stream=case["stream"])
        v2 = [p[1] for p in o2[1]]
        for t in settled:
            if not common.num_eq(v1[t], v2[t]):
                return Violation("settled value at t=%d (hor=%d, |w1|=%d) changes from %r to %r when the trace is extended: %s"
                                 % (t, hor, n1, v1[t], v2[t], text), rep2, stream=case["stream"])
    if m_rho1[0] == "ok" and not (case.get("render") and case["render"][4]):      # (`unless` is another formula than `until`)
        for t in settled:
            if not common.num_eq(v1[t], m_rho1[1][t]):
                return Violation("settled value at t=%d is %r, rho is %r: %s" % (t, v1[t], m_rho1[1][t], text), rep,
                                 stream=case["stream"])
    else:
        ctx.skipped_undef += 1
    return None


def model(cases):
    lines = []
    for c in cases:
        lines.append("past | " + F.to_proto(c["f"]))
        lines.append(disc.proto_case("rhot", c["f"], c["data"], c["n"]))
    outs = common.driver_run(lines)
    res = []
    for i in range(len(cases)):
        p = outs[2 * i]
        if not p.startswith("ok "):
            raise common.HarnessError("model gives no horizon for a bounded formula: " + p)
        res.append((int(p.split("|")[0].split()[1]), disc.parse_model(outs[2 * i + 1])))
    return res


def explore(ctx, rng, count, gen=None):
    cases = [(gen or gen_case)(rng) for _ in range(count)]
    ms = model(cases)
    for c, (hor, m_rho) in zip(cases, ms):
        ctx.evaluations += 1
        ctx.count("stream:" + c["stream"])
        ctx.count("hor=%d" % hor if hor < 6 else "hor>=6")
        if c.get("cb"):
            ctx.count("const-bound:" + c["cb"][5])
        v = check_case(ctx, c, hor, m_rho)
        if v is None:
            ctx.traces_validated += 1
            if len(ctx.samples) < 3 and hor >= 2:
                ctx.sample({"spec": "out = " + F.to_text(c["f"]), "w1": c["data"], "w2": c["exts"][0], "horizon": hor})
        else:
            ctx.violations.append(shrink_violation(ctx, c, v))
            if len(ctx.violations) >= 3:
                return


def replay(ctx, obj):
    f = F.from_proto(obj["formula"])
    if obj.get("dense_cb"):
        from .. import dense as D
        v = check_dense_const_bound(Ctx(ctx.id, ctx.tier, ctx.seed), f, D.sig_of_rep(obj["w1"]), D.sig_of_rep(obj["w2"]), *obj["dense_cb"])
        return (v is None), (v.what if v else "settled values are stable on the replayed case")
    c = {"stream": "replay", "f": f, "n": obj["n"], "data": {k: [float(x) for x in v] for k, v in obj["data"].items()},
         "exts": [{k: [float(x) for x in v] for k, v in e.items()} for e in obj["exts"]], "decl": F.variables(f) or ["a"],
         "render": obj.get("render"), "reconf": obj.get("reconf"), "cb": obj.get("cb")}
    (hor, m_rho), = model([c])
    v = check_case(Ctx(ctx.id, ctx.tier, ctx.seed), c, hor, m_rho)
    return (v is None), (v.what if v else "settled values are stable on the replayed case")


def run(ctx):
    explore(ctx, ctx.subrng("ext-d"), ctx.budget(1200, 10000))
    if not ctx.violations:
        explore(ctx, ctx.subrng("shared-var"), ctx.budget(160, 1500), gen_shared_var_case)
    if not ctx.violations:
        explore(ctx, ctx.subrng("const-bound"), ctx.budget(100, 800), gen_const_bound_case)
    if not ctx.violations:
        explore_dense_const_bound(ctx, ctx.subrng("const-bound-c"), ctx.budget(40, 400))
    if not ctx.violations:
        try:
            from . import c04
            c04.extension_stream(ctx)
        except ImportError:
            ctx.notes.append("dense-time extension stream not available")


def search(ctx):
    explore(ctx, ctx.subrng("search-shared-var"), ctx.budget(400, 2000), gen_shared_var_case)
    if not ctx.violations:
        explore(ctx, ctx.subrng("search"), ctx.budget(1500, 6000))
