"""C20 — explanations of a violation are a sufficient cause.

Tie: stream `expl`.  For random specifications of the fragment and traces on which the specification is
violated at time 0, explain() is called on the real offline specification object; then every
(variable, sample) position that is NOT reported is re-assigned — randomly, and adversarially to +-100, 0,
and to the values that would most help satisfaction — and the specification re-evaluated: it must still
be violated at time 0.  The reported positions are also compared with those of the Lean mirror of the
explainer (`explain`, Rtamt/Discrete/Explain.lean).  When the specification is satisfied at time 0 nothing
may be reported.  "The specification" of a text with several assertions is its main (last) assertion, the one
whose value evaluate() returns (streams `modular` and `assertions`): earlier assertions count only through
the references to them.
"""
from .. import common, formula as F, impl, disc
from ..engine import Violation, Ctx

RULE = ("typed random formulas over predicates, not/and/or/implies, prev/s_prev/next/s_next, once/historically/eventually/always "
        "bounded and unbounded (depth<=4), variables may occur several times; traces of length 1..10; 12 re-assignments per "
        "violating case (random, all +100, all -100, all 0, each single free position flipped to +-100). distinct by (spec, data); "
        "non-trivial when violated at 0 and at least one position is not reported. stream assertions: texts of 2-4 assertions "
        "(one text or add_sub_spec()), the main (last) one referencing some, all or none of the earlier ones, traces steered so that "
        "the main assertion is satisfied at 0 while a referenced / an unreferenced earlier assertion is violated (nothing may be "
        "reported) or the main assertion is violated next to unreferenced earlier ones (sufficiency w.r.t. the value evaluate() "
        "returns; positions and interval lists vs the model asked about the main assertion with the names inlined).")
EXPLANATION = ("theorems (Lean, mirror of the explainer after the fix: commits): C20_sufficient_partial (on the fragment explFrag, for values with "
               "neg 0 = 0: every trace agreeing with the original on the positions reported for a specification violated at 0 is "
               "violated at 0) via the monotone invariant C20_mono / C20_invariant_partial over well-formed interval lists; "
               "C20_satisfied_empty; C20_defined_on_fragment; refutations of the naive invariants (C20_invariant_false_zero, "
               "C20_invariant_false_unsorted, C20_sufficient_partial_false). Correspondence: positions reported by the real explainer vs "
               "the mirror; sufficiency tested on the real evaluator under adversarial re-assignment of the non-reported positions.")
ASSUMPTIONS = ["partial: fragment explFrag (no since/until/precedes - the explainer raises on them -, no rise/fall); iff/xor: known finding F40",
               "interval_union (merging of interval lists) is not mirrored: the model keeps un-merged lists and position sets are compared"]
VARS = ["a", "b"]
VARS3 = ["a", "b", "c"]
ALLOW = {"arith", "cmp", "bool", "not", "past_nr", "future", "ufuture", "bpast", "bfuture"}


class EGen(F.Gen):
    """Formulas of the explainer's fragment. Connectives are frequent (the propagation rules differ per connective and
    polarity, and the same variable reached along several paths exercises the union of interval lists)."""

    def pred(self):
        r = self.r
        if r.random() < 0.6:
            return ("b", r.choice(F.CMP), ("v", r.choice(self.vars)), ("c", r.choice(self.consts)))
        return ("b", r.choice(F.CMP), self.term(1), self.term(0))

    def formula(self, d):
        r = self.r
        if d <= 0 or r.random() < 0.12:
            return self.pred()
        g = r.choice(["bool", "bool", "bool", "not", "past", "future", "ufuture", "ufuture", "bpast", "bfuture", "bfuture"])
        sub = lambda: self.formula(d - 1)  # noqa: E731
        if g == "bool":
            return ("b", r.choice(["and", "or", "implies"] + (["iff", "xor"] if self.iffxor else [])), sub(), sub())
        if g == "not":
            return ("u", "not", sub())
        if g == "past":
            return ("t1", r.choice(["prev", "sprev", "once", "hist"]), sub())
        if g == "future":
            return ("t1", r.choice(["next", "snext"]), sub())
        if g == "ufuture":
            return ("t1", r.choice(["ev", "alw"]), sub())
        a, b = self.bounds()
        if g == "bpast":
            return ("tb1", r.choice(["once", "hist"]), a, b, sub())
        return ("tb1", r.choice(["ev", "alw"]), a, b, sub())


CONNECTIVES = [("b", "and"), ("b", "or"), ("b", "implies"), ("u", "not"), ("t1", "prev"), ("t1", "sprev"), ("t1", "next"), ("t1", "snext"),
               ("t1", "once"), ("t1", "hist"), ("t1", "ev"), ("t1", "alw"), ("tb1", "once"), ("tb1", "hist"), ("tb1", "ev"), ("tb1", "alw")]


def build(rng, g, op, kids):
    if op[0] == "b":
        return ("b", op[1], kids(), kids())
    if op[0] in ("u", "t1"):
        return (op[0], op[1], kids())
    a, b = g.bounds()
    return ("tb1", op[1], a, b, kids())


def gen_pair(rng, g, i):
    """Systematic stream: every (parent rule, child rule) combination under both polarities."""
    par = CONNECTIVES[i % len(CONNECTIVES)]
    chi = CONNECTIVES[(i // len(CONNECTIVES)) % len(CONNECTIVES)]
    inner = lambda: build(rng, g, chi, g.pred)  # noqa: E731
    f = build(rng, g, par, lambda: inner() if rng.random() < 0.7 else g.pred())
    k = (i // (len(CONNECTIVES) ** 2)) % 3
    if k == 1:
        f = ("u", "not", f)
    elif k == 2:
        f = ("b", rng.choice(["and", "or", "implies"]), f, build(rng, g, rng.choice(CONNECTIVES), g.pred))
    return f


TEMPORAL = [c for c in CONNECTIVES if c[0] in ("t1", "tb1")]
BOOLS = [("b", "and"), ("b", "or"), ("b", "implies")]


def gen_triple(rng, g, i):
    """Systematic stream: temporal operator over a Boolean combination that contains another temporal operator below a second
    connective - T1(B1(pred, B2(pred, T2(pred)))) - so that the inner operator is explained on several disjoint intervals."""
    t1 = TEMPORAL[i % len(TEMPORAL)]
    t2 = TEMPORAL[(i // len(TEMPORAL)) % len(TEMPORAL)]
    b1 = BOOLS[(i // len(TEMPORAL) ** 2) % 3]
    b2 = BOOLS[(i // (3 * len(TEMPORAL) ** 2)) % 3]
    inner = build(rng, g, t2, g.pred)
    mid = ("b", b2[1], g.pred(), inner) if rng.random() < 0.5 else ("b", b2[1], inner, g.pred())
    if rng.random() < 0.25:
        mid = ("u", "not", mid)
    body = ("b", b1[1], g.pred(), mid) if rng.random() < 0.5 else ("b", b1[1], mid, g.pred())
    f = build(rng, g, t1, lambda: body)
    if rng.random() < 0.3:
        f = ("u", "not", f)
    return f


def gen_data(rng, vs, n):
    mode = rng.choice(["random", "random", "const", "two", "ramp"])
    if mode == "random":
        return F.gen_trace(rng, vs, n, vals=(-2.0, -1.0, 0.0, 1.0, 2.0, 3.0))
    out = {}
    for v in vs:
        if mode == "const":
            c = rng.choice([-2.0, 0.0, 1.0, 3.0])
            out[v] = [c] * n
        elif mode == "two":
            k = rng.randint(0, n)
            lo, hi = rng.choice([(-2.0, 3.0), (3.0, -2.0), (0.0, 1.0), (1.0, 0.0)])
            out[v] = [lo] * k + [hi] * (n - k)
        else:
            s = rng.choice([-1.0, 1.0])
            out[v] = [s * (t - n // 2) for t in range(n)]
    return out


def evaluate_and_explain(text, vs, data, n, pre=None, extra=(), sampling=None, sub_specs=()):
    """`sub_specs`: assertions handed over with add_sub_spec() instead of being part of the text."""
    def go():
        spec = impl.make_spec("offd", text, vs, single=True, extra_decl=list(extra), sampling=sampling, sub_specs=list(sub_specs))
        spec.parse()
        if pre is not None:
            # the object has been used before: another trace evaluated and explained
            ds0 = {"time": list(range(len(next(iter(pre.values())))))}
            ds0.update({v: list(pre[v]) for v in vs})
            spec.evaluate(ds0)
            spec.explain()
        ds = {"time": list(range(n))}
        ds.update({v: list(data[v]) for v in vs})
        out = spec.evaluate(ds)
        spec.explain()
        ex = {}
        for v in vs:
            ex[v] = [list(i) for i in spec.explainer.explanations.get(v, [])]
        return out[0][1], ex
    return impl.guarded(go)


def rho0(text, vs, data, n, extra=(), sampling=None, sub_specs=()):
    kw = {"sampling": sampling} if sampling else {}
    if sub_specs:
        kw["sub_specs"] = list(sub_specs)
    o = impl.eval_offline_discrete(text, vs, data, n, extra_decl=list(extra), **kw)
    return o if o[0] != "ok" else ("ok", o[1][0][1])


def reported_positions(ex, n):
    pos = set()
    for v, ivs in ex.items():
        for b, e in ivs:
            for t in range(max(b, 0), min(e, n - 1) + 1):
                pos.add((v, t))
    return pos


def parse_gen(mo):
    """`ok x:t,t:b-e b-e ; y::none` -> {x: [[b, e], ...] | None}; None if the line is not an ok-line."""
    if not mo.startswith("ok"):
        return None
    out = {}
    for item in mo[2:].split(";"):
        item = item.strip()
        if not item:
            continue
        x, _, ivs = item.split(":")
        out[x] = None if ivs.strip() == "none" else [[int(p.split("-")[0]), int(p.split("-")[1])] for p in ivs.split()]
    return out


def compare_gen(ctx, what, ex, mg, text, rep):
    """The intervals recorded by the real explainer for the variables against the run of the translated code (`explainG`:
    the functions of explanations.py and the table of explainer.py as translated on this run): exact lists."""
    g = parse_gen(mg)
    if g is None:
        ctx.diffs.append(Violation("translated explainer fails on %s (%s): %s" % (text, what, mg), dict(rep, model_gen=mg),
                                   failing_input=False, stream="expl/translated"))
        return
    for v, ivs in ex.items():
        want = g.get(v)
        if [list(i) for i in ivs] != (want or []):
            ctx.diffs.append(Violation("explainer records %r for %r on %s (%s), the translated code run by the model %r"
                                       % (ivs, v, text, what, want), dict(rep, model_gen=mg), failing_input=False,
                                       stream="expl/translated"))
            return
    ctx.count("translated-explainer agrees")


def check_case(ctx, f, data, n, rng, mo=None, mg=None, pre="random", text=None, extra=(), half=False, sub_specs=(), note="",
               max_trials=None):
    """`text` / `extra` / `sub_specs`: a text of several assertions (named sub-formulas, referenced by the last one or not; the
    first ones possibly handed over with add_sub_spec()) whose MAIN assertion - the last one, the one whose value evaluate()
    returns - is `f` once the names are inlined.  The property speaks about that assertion only: satisfied at 0 -> nothing may be
    reported for any variable, whatever the earlier assertions are worth; violated at 0 -> sufficiency under re-evaluation of the
    same text.  The model (`mo` / `mg`) is asked about `f`, i.e. about the main assertion only; without `mo` a modular case is
    judged by the model-free oracle alone.  `note`: what the generator knows about the earlier assertions (for the message).
    `max_trials`: cap on the number of re-assignments (the three constant fills are always kept)."""
    vs = sorted(data)
    modular = text is not None
    text = text or "out = " + F.to_text(f)
    sampling = None
    if half and not modular:
        # the same bounds as durations: period 500 ms, a bound of k samples written k/2 seconds (F52: the explainer has to read
        # the bounds in samples, as evaluate() does)
        if half == "double":
            # unit-less bounds are durations in the default unit too: period 2 s, a bound of k samples written 2k
            text = "out = " + F.to_text(f, bound=lambda k: str(2 * k))
            sampling = (2, "s", 0.1)
        else:
            text = "out = " + F.to_text(f, bound=lambda k: ("%ds" % (k // 2)) if k % 2 == 0 else ("%d.5s" % (k // 2)))
            sampling = (500, "ms", 0.1)
        ctx.count("bounds-as-durations" + ("/unit-less" if half == "double" else ""))
    if pre == "random":
        pre = gen_data(rng, vs, rng.randint(1, 8)) if rng.random() < 0.25 else None
    if pre is not None:
        ctx.count("reused-object")
    out = evaluate_and_explain(text, vs, data, n, pre, extra, sampling, sub_specs)
    rep = {"pre": pre, "extra": list(extra), "modular": modular, "half": half, "spec": text, "formula": F.to_proto(f), "data": data, "n": n, "impl": out}
    if sub_specs:
        rep["sub_specs"] = list(sub_specs)
    if note:
        rep["assertions"] = note
    shown = text if not sub_specs else "%s [add_sub_spec: %s]" % (text, " ".join(sub_specs))
    if out[0] != "ok":
        return Violation("evaluate()/explain() raised %r: %s" % (out[1:], text), rep, stream="expl")
    r0, ex = out[1]
    if r0 != r0:
        ctx.skipped_undef += 1
        return None
    if not r0 < 0:
        if any(ex[v] for v in ex):
            return Violation("specification satisfied at 0 (evaluate() returns %r at time 0) but explain() reports %r%s: %s"
                             % (r0, ex, (" (" + note + ")") if note else "", shown), rep,
                             stream="expl/sat-modular" if modular else "expl/sat")
        ctx.count("satisfied")
        return None
    ctx.count("violated")
    if mg is not None:
        compare_gen(ctx, "explain()", ex, mg, text, rep)
    pos = reported_positions(ex, n)
    # correspondence: positions reported by the mirror of the explainer
    if modular and mo is None:
        mo = "skip"
    if mo is None:
        mo = common.driver_run([disc.proto_case("explain", f, data, n)])[0]
    if mo == "skip":
        pass
    elif mo.startswith("ok"):
        mpos = set()
        for item in mo[2:].split(";"):
            item = item.strip()
            if not item:
                continue
            x, ts = item.split(":")
            for t in ts.split(","):
                if t:
                    mpos.add((x, int(t)))
        if mpos != pos:
            ctx.diffs.append(Violation("explainer reports %r, its mirror reports %r: %s" % (sorted(pos), sorted(mpos), text), rep,
                                       failing_input=False, stream="expl/mirror"))
    else:
        ctx.diffs.append(Violation("mirror of the explainer rejects %s (%s)" % (text, mo), rep, failing_input=False, stream="expl/mirror"))
    free = [(v, t) for v in vs for t in range(n) if (v, t) not in pos]
    if free:
        ctx.nontrivial.add(disc.data_key(text, data))
    trials = []
    for fill in (100.0, -100.0, 0.0):
        trials.append({p: fill for p in free})
    for _ in range(5):
        trials.append({p: rng.choice([-100.0, -3.0, 0.0, 0.5, 3.0, 100.0]) for p in free})
    for p in free[:8]:
        for val in (100.0, -100.0):
            trials.append({p: val})
    # values that can make two sub-formulas exactly equal (iff/xor, ==): drawn from the data and the constants of the formula
    pool = sorted({x for v in vs for x in data[v]} | {c[1] for c in F.subformulas(f) if c[0] == "c"})
    pool = sorted(set(pool) | {-x for x in pool})
    for _ in range(6):
        trials.append({p: rng.choice(pool) for p in free})
    for p in free[:4]:
        for val in pool[:6]:
            trials.append({p: val})
    if max_trials is not None and len(trials) > max_trials:
        trials = trials[:3] + rng.sample(trials[3:], max_trials - 3)
    for tr in trials:
        d2 = {v: list(data[v]) for v in vs}
        for (v, t), val in tr.items():
            d2[v][t] = val
        ctx.evaluations += 1
        o2 = rho0(text, vs, d2, n, extra, sampling, sub_specs)
        if o2[0] != "ok":
            return Violation("re-evaluation raised %r: %s" % (o2[1:], text), dict(rep, reassigned=d2), stream="expl")
        if o2[1] != o2[1]:
            continue
        if not o2[1] < 0:
            return Violation("explanation %r is not a sufficient cause: the trace %r agrees with the original on all reported positions "
                             "but has rho(0) = %r (original %r): %s" % (ex, d2, o2[1], r0, shown), dict(rep, reassigned=d2, explanation=ex),
                             stream="expl")
    return None


def in_iffxor(case):
    return any(o in ("b:iff", "b:xor") for o in F.ops(case["f"]))


def in_risefall(case):
    return any(o in ("t1:rise", "t1:fall") for o in F.ops(case["f"]))


REGIONS = {"iffxor": in_iffxor, "risefall": in_risefall}


def explore(ctx, rng, count):
    cases = []
    for i in range(count):
        nv = rng.choice([1, 1, 2])
        g = EGen(rng, VARS[:nv], ALLOW, max_bound=rng.choice([1, 2, 3, 5]), consts=(0.0, 1.0, 2.0))
        g.iffxor = rng.random() < 0.4
        if i % 3 == 0:
            f = gen_pair(rng, g, i // 3 + ctx.seed * 7919)
            kind = "gen:pairs"
        elif i % 3 == 1:
            g.vars = VARS3[:rng.choice([2, 3])]
            f = gen_triple(rng, g, i // 3 + ctx.seed * 104729)
            kind = "gen:triples"
        else:
            f = g.formula(rng.choice([2, 3, 4]))
            kind = "gen:random"
        n = rng.randint(1, 12) if i % 3 != 1 else rng.randint(4, 12)
        data = gen_data(rng, F.variables(f) or ["a"], n)
        if disc.known_region(ctx, {"f": f}, REGIONS):
            ctx.skipped_known += 1
            continue
        cases.append((f, data, n, kind))
    mos = common.driver_run([disc.proto_case("explain", f, data, n) for f, data, n, _ in cases])
    mgs = common.driver_run(["explaingen | %s | %d | 0 | spec | %s" % (F.to_proto(f), n, disc.sigs(data)) for f, data, n, _ in cases])
    for (f, data, n, kind), mo, mg in zip(cases, mos, mgs):
        ctx.count(kind)
        for o in F.ops(f):
            if o[:2] in ("b:", "u:", "t1", "tb") and o.split(":")[1] in ("and", "or", "implies", "not", "iff", "xor", "prev", "sprev", "next", "snext",
                                                                        "once", "hist", "ev", "alw"):
                ctx.count("op:" + o)
        ctx.evaluations += 1
        half = (rng.choice([True, "double"]) if rng.random() < 0.2 and any(x[0] == "tb1" for x in F.subformulas(f)) else False)
        v = check_case(ctx, f, data, n, rng, mo, mg, half=half)
        if v is None:
            ctx.traces_validated += 1
            if len(ctx.samples) < 3 and F.depth(f) >= 3:
                ctx.sample({"spec": "out = " + F.to_text(f), "data": data})
        else:
            ctx.violations.append(v)
            if len(ctx.violations) >= 3:
                return


def model_main(cases):
    """The model side for texts of several assertions: `explain` / `explaingen` are asked about the MAIN assertion only (the last
    one, names inlined) - the driver commands take one formula, there is nothing on the model side that walks earlier assertions."""
    mos = common.driver_run([disc.proto_case("explain", c["f"], c["data"], c["n"]) for c in cases])
    mgs = common.driver_run(["explaingen | %s | %d | 0 | spec | %s" % (F.to_proto(c["f"]), c["n"], disc.sigs(c["data"])) for c in cases])
    return mos, mgs


def modular_stream(ctx, rng, count):
    """A named sub-formula referenced several times in one assertion, at different time offsets (the explainer reaches the shared
    node with different requested intervals): what explain() reports for the modular text - nothing when the main assertion is
    satisfied at 0 (also when the named sub-formula itself is violated at 0), a sufficient cause otherwise, and the same
    positions / interval lists as the model reports for the main assertion with the name inlined."""
    cases = []
    for _ in range(count):
        nv = rng.choice([1, 2])
        g = EGen(rng, VARS[:nv], ALLOW, max_bound=rng.choice([1, 2, 3]), consts=(0.0, 1.0, 2.0))
        g.iffxor = False
        sub = g.formula(rng.choice([0, 0, 1]))

        def shifted(x):
            k = rng.random()
            a = rng.randint(0, 2)
            if k < 0.3:
                return ("t1", rng.choice(["next", "prev", "snext", "sprev"]), x)
            if k < 0.6:
                return ("tb1", rng.choice(["ev", "alw", "once", "hist"]), a, a + rng.randint(0, 2), x)
            if k < 0.75:
                return ("t1", rng.choice(["ev", "alw"]), x)
            if k < 0.85:
                return ("u", "not", x)
            return x
        A = ("v", "sub0")
        parts = [A if rng.random() < 0.5 else shifted(A), shifted(A)]
        if rng.random() < 0.4:
            parts.append(g.formula(rng.choice([0, 1])))
        rng.shuffle(parts)
        body = parts[0]
        for p_ in parts[1:]:
            body = ("b", rng.choice(["and", "or", "implies"]), body, p_)
        if rng.random() < 0.2:
            body = ("u", "not", body)

        def inline(x):
            if x == A:
                return sub
            return F.rebuild(x, [inline(c_) for c_ in F.children(x)])
        f = inline(body)
        if disc.known_region(ctx, {"f": f}, REGIONS):
            ctx.skipped_known += 1
            continue
        text = "sub0 = %s;\nout = %s" % (F.to_text(sub), F.to_text(body))
        n = rng.randint(2, 9)
        data = gen_data(rng, F.variables(f) or ["a"], n)
        cases.append({"f": f, "text": text, "n": n, "data": data})
    mos, mgs = model_main(cases)
    for c, mo, mg in zip(cases, mos, mgs):
        f, text, n, data = c["f"], c["text"], c["n"], c["data"]
        ctx.evaluations += 1
        ctx.count("gen:modular")
        v = check_case(ctx, f, data, n, rng, mo, mg, pre=None, text=text, extra=("sub0",))
        if v is None:
            ctx.traces_validated += 1
        else:
            ctx.violations.append(v)
            if len(ctx.violations) >= 3:
                return


# ------------------------------------------------------------------------------- several assertions
def unsat0(line):
    """Model value at time 0 of a `rho` line: True (violated) / False (satisfied) / None (undefined, NaN, rejected)."""
    o = disc.parse_model(line)
    if o[0] != "ok" or not o[1]:
        return None
    x = o[1][0]
    return None if x != x else bool(x < 0)


def assertions_stream(ctx, rng, count):
    """Texts of several assertions `p0 = ..; p1 = ..; out = ..` (one text, or the earlier ones handed over with add_sub_spec()):
    each earlier assertion may use the ones before it, and the main assertion references some of them, all of them or none.
    evaluate() returns the value of the MAIN (last) assertion, so the property is about that one:
      target sat/ref   - main satisfied at 0 while an earlier assertion it references is violated at 0     -> nothing reported
      target sat/unref - main satisfied at 0 while an earlier assertion it does NOT reference is violated  -> nothing reported
      target viol      - main violated at 0, some earlier assertion not referenced (satisfied or violated) -> sufficient cause
                         w.r.t. re-evaluation of the same text, and exactly what the model reports for the main assertion
      target any       - no steering.
    The traces are steered towards the target with the model's `rho` of every assertion (names inlined) on a few candidate
    traces; the judgement itself never uses these values (only the `note` in the message does)."""
    protos = []
    for i in range(count):
        target = ("sat/ref", "sat/unref", "viol", "any")[i % 4]
        g = EGen(rng, VARS, ALLOW, max_bound=rng.choice([1, 2, 3]), consts=(0.0, 1.0, 2.0))
        g.iffxor = False
        k = rng.choice([1, 1, 2, 2, 3])
        names = ["p%d" % j for j in range(k)]
        bodies = []
        for j in range(k):
            g.vars = rng.choice([["a"], ["b"], ["a", "b"]])
            b = g.formula(rng.choice([0, 0, 1, 2]))
            if j and rng.random() < 0.35:
                q = ("v", names[rng.randrange(j)])
                if rng.random() < 0.3:
                    q = ("u", "not", q)
                b = ("b", rng.choice(["and", "or", "implies"]), q, b) if rng.random() < 0.5 else ("b", rng.choice(["and", "or", "implies"]), b, q)
            bodies.append(b)
        ref = [nm for nm in names if rng.random() < 0.5]
        if target == "sat/ref" and not ref:
            ref = [rng.choice(names)]
        if target in ("sat/unref", "viol") and len(ref) == k:
            ref.remove(rng.choice(ref))

        def occ(nm):
            x = ("v", nm)
            r_ = rng.random()
            if r_ < 0.3:
                return ("u", "not", x)
            if r_ < 0.45:
                return ("t1", rng.choice(["next", "prev", "ev", "alw", "once", "hist"]), x)
            if r_ < 0.55:
                a = rng.randint(0, 2)
                return ("tb1", rng.choice(["ev", "alw", "once", "hist"]), a, a + rng.randint(0, 2), x)
            return x
        parts = [occ(nm) for nm in ref]
        if not parts or rng.random() < 0.65:
            g.vars = rng.choice([["a"], ["b"], ["a", "b"]])
            parts.append(g.formula(rng.choice([0, 1, 2])))
        rng.shuffle(parts)
        body = parts[0]
        for p_ in parts[1:]:
            body = ("b", rng.choice(["and", "and", "and", "or", "implies"] if target == "viol" else ["and", "or", "or", "implies"]), body, p_)
        if len(parts) == 1 and ref and body == ("v", ref[0]) and rng.random() < 0.5:
            body = ("u", "not", body)                       # not only the alias `out = p0`

        inl = {}

        def inline(x):
            if x[0] == "v" and x[1] in inl:
                return inl[x[1]]
            return F.rebuild(x, [inline(c_) for c_ in F.children(x)])
        for nm, b in zip(names, bodies):
            inl[nm] = inline(b)
        f = inline(body)
        if any(disc.known_region(ctx, {"f": x}, REGIONS) for x in [f] + list(inl.values())):
            ctx.skipped_known += 1
            continue
        lines = ["%s = %s;" % (nm, F.to_text(b)) for nm, b in zip(names, bodies)]
        n = rng.randint(1, 8)
        cands = [gen_data(rng, VARS, n) for _ in range(4)]
        protos.append({"target": target, "names": names, "ref": ref, "lines": lines, "main": "out = " + F.to_text(body), "f": f,
                       "inl": [inl[nm] for nm in names], "n": n, "cands": cands, "as_subs": rng.random() < 0.35})
    # steering: the model's value at 0 of the main and of every earlier assertion on every candidate trace
    qs = []
    for c in protos:
        for d in c["cands"]:
            qs.extend(disc.proto_case("rho", x, d, c["n"]) for x in [c["f"]] + c["inl"])
    outs = common.driver_run(qs)
    at = 0
    for c in protos:
        w = 1 + len(c["inl"])
        best = None
        for d in c["cands"]:
            u = [unsat0(o) for o in outs[at:at + w]]
            at += w
            early = dict(zip(c["names"], u[1:]))
            refv = [nm for nm in c["ref"] if early[nm]]
            unrefv = [nm for nm in c["names"] if nm not in c["ref"] and early[nm]]
            hit = {"sat/ref": u[0] is False and bool(refv), "sat/unref": u[0] is False and bool(unrefv),
                   "viol": u[0] is True, "any": True}[c["target"]]
            if best is None or (hit and not best[0]):
                best = (hit, d, u[0], early)
        hit, c["data"], m0, early = best
        c["hit"] = hit
        c["note"] = "main %s at 0 by the model; earlier assertions: %s" % (
            {True: "violated", False: "satisfied", None: "undefined"}[m0],
            ", ".join("%s %s%s" % (nm, {True: "violated", False: "satisfied", None: "undefined"}[early[nm]],
                                   "" if nm in c["ref"] else " (not referenced)") for nm in c["names"]))
        main = "main %s" % {True: "violated", False: "satisfied", None: "undefined"}[m0]
        unref = [nm for nm in c["names"] if nm not in c["ref"]]
        c["cls"] = [main] + [main + ", " + what for what, yes in (
            ("a referenced earlier assertion violated", any(early[nm] for nm in c["ref"])),
            ("an unreferenced earlier assertion violated", any(early[nm] for nm in unref)),
            ("an unreferenced earlier assertion satisfied", any(early[nm] is False for nm in unref))) if yes]
    mos, mgs = model_main(protos)
    for c, mo, mg in zip(protos, mos, mgs):
        ctx.evaluations += 1
        ctx.count("gen:assertions")
        for cls in c["cls"]:
            ctx.count("assertions:" + cls)
        ctx.count("assertions:target %s %s" % (c["target"], "reached" if c["hit"] else "missed"))
        if c["as_subs"]:
            ctx.count("assertions:add_sub_spec")
            text, subs = c["main"], tuple(c["lines"])
        else:
            text, subs = "\n".join(c["lines"] + [c["main"]]), ()
        v = check_case(ctx, c["f"], c["data"], c["n"], rng, mo, mg, pre=None, text=text, extra=tuple(c["names"]), sub_specs=subs,
                       note=c["note"], max_trials=14)
        if v is None:
            ctx.traces_validated += 1
        else:
            ctx.violations.append(v)
            if len(ctx.violations) >= 3:
                return


# ------------------------------------------------------------------------------- rule-level correspondence
def gen_good_intervals(rng, n):
    """Interval lists of the shape the explainer passes around: begins and ends non-decreasing, inside the trace; maximal runs
    of a random position set, possibly widened / shifted the way the bounded operators do (which can make them overlap)."""
    sel = [rng.random() < rng.choice([0.3, 0.5, 0.8]) for _ in range(n)]
    runs, cur = [], None
    for t in range(n):
        if sel[t] and cur is None:
            cur = t
        if not sel[t] and cur is not None:
            runs.append([cur, t - 1])
            cur = None
    if cur is not None:
        runs.append([cur, n - 1])
    k = rng.random()
    if k < 0.3 and runs:
        a = rng.randint(0, 2)
        c = a + rng.randint(0, 2)
        runs = [[min(b + a, n - 1), min(e + c, n - 1)] for b, e in runs]
    elif k < 0.5 and runs:
        a = rng.randint(0, 2)
        c = a + rng.randint(0, 2)
        runs = [[max(b - c, 0), max(e - a, 0)] for b, e in runs]
    return runs


def impl_explain_at(text, vs, data, n, ivs, flag):
    def go():
        from rtamt.explanation.ltl.discrete_time.explainer import Explanations
        spec = impl.make_spec("offd", text, vs, single=True)
        spec.parse()
        ds = {"time": list(range(n))}
        ds.update({v: list(data[v]) for v in vs})
        spec.evaluate(ds)
        ex = spec.explainer
        ex.spec = spec.ast
        ex.explanations = Explanations()
        ex.visit(spec.ast.specs[0], [[list(i) for i in ivs], flag])
        return {v: [list(i) for i in ex.explanations.get(v, [])] for v in vs}
    return impl.guarded(go)


def rule_stream(ctx, rng, count):
    """Every propagation rule of the explainer against its mirror: the real visitor is started on a one- or two-operator
    formula with an arbitrary well-formed interval list and polarity (not only [[0,0]] / violated), and the positions it
    reports for the variables are compared with `explain sigma n phi I flag` of the model."""
    cases = []
    for i in range(count):
        g = EGen(rng, VARS, ALLOW, max_bound=rng.choice([1, 2, 3]), consts=(0.0, 1.0, 2.0))
        g.iffxor = False
        op = CONNECTIVES[i % len(CONNECTIVES)]
        leaf = (lambda: ("v", rng.choice(VARS))) if rng.random() < 0.5 else g.pred
        f = build(rng, g, op, leaf)
        if rng.random() < 0.35:
            f = build(rng, g, rng.choice(CONNECTIVES), lambda: f if rng.random() < 0.7 else g.pred())
        n = rng.randint(1, 10)
        vs = F.variables(f) or ["a"]
        data = gen_data(rng, vs, n)
        cases.append((f, n, vs, data, gen_good_intervals(rng, n), rng.random() < 0.5))
    lines = []
    for f, n, vs, data, ivs, flag in cases:
        lines.append("explainat | %s | %d | %d | %s | %s" % (F.to_proto(f), n, 1 if flag else 0, " ".join("%d-%d" % (b, e) for b, e in ivs),
                                                           disc.sigs(data)))
    outs = common.driver_run(lines)
    gens = common.driver_run([l.replace("explainat |", "explaingen |", 1) for l in lines])
    for (f, n, vs, data, ivs, flag), mo, mg in zip(cases, outs, gens):
        ctx.evaluations += 1
        ctx.count("rule:" + ":".join(str(x) for x in f[:2]) + ("/sat" if flag else "/unsat"))
        text = "out = " + F.to_text(f)
        out = impl_explain_at(text, vs, data, n, ivs, flag)
        rep = {"kind": "rule", "spec": text, "formula": F.to_proto(f), "data": data, "n": n, "intervals": ivs, "flag": flag, "impl": out,
               "model": mo}
        if out[0] != "ok":
            ctx.diffs.append(Violation("explainer visitor raised %r on %s started with %r / %s" % (out[1:], text, ivs, flag), rep,
                                       failing_input=False, stream="expl/rules"))
            continue
        pos = reported_positions(out[1], n)
        if ivs:
            compare_gen(ctx, "started with %r / %s" % (ivs, flag), out[1], mg, text, rep)
        if not mo.startswith("ok"):
            ctx.diffs.append(Violation("mirror rejects %s: %s" % (text, mo), rep, failing_input=False, stream="expl/rules"))
            continue
        mpos = set()
        for item in mo[2:].split(";"):
            item = item.strip()
            if item:
                x, ts = item.split(":")
                mpos |= {(x, int(t)) for t in ts.split(",") if t}
        if pos != mpos:
            ctx.diffs.append(Violation("explainer started on %s with intervals %r (explain why %s) reports %r, its mirror %r"
                                       % (text, ivs, "satisfied" if flag else "violated", sorted(pos), sorted(mpos)), rep,
                                       failing_input=False, stream="expl/rules"))
            if len(ctx.diffs) >= 5:
                return
        else:
            ctx.traces_validated += 1


def replay(ctx, obj):
    if obj.get("kind") == "rule":
        return True, "rule-level correspondence case (not a property violation by itself)"
    import random
    f = F.from_proto(obj["formula"])
    data = {k: [float(x) for x in v] for k, v in obj["data"].items()}
    pre = {k: [float(x) for x in v_] for k, v_ in obj["pre"].items()} if obj.get("pre") else None
    mtext, extra = (obj["spec"], tuple(obj.get("extra") or ())) if obj.get("modular") else (None, ())
    subs = tuple(obj.get("sub_specs") or ())
    v = check_case(Ctx(ctx.id, ctx.tier, ctx.seed), f, data, obj["n"], random.Random(0), pre=pre, text=mtext, extra=extra,
                   half=obj.get("half") or False, sub_specs=subs, note=obj.get("assertions") or "")
    if v is None and "reassigned" in obj:
        d2 = {k: [float(x) for x in vv] for k, vv in obj["reassigned"].items()}
        text = mtext or "out = " + F.to_text(f)
        out = evaluate_and_explain(text, sorted(data), data, obj["n"], None, extra, None, subs)
        if out[0] == "ok" and out[1][0] < 0:
            pos = reported_positions(out[1][1], obj["n"])
            agrees = all(d2[v][t] == data[v][t] for (v, t) in pos)
            o2 = rho0(text, sorted(data), d2, obj["n"], extra, None, subs)
            if agrees and o2[0] == "ok" and not o2[1] < 0:
                return False, "explanation is not a sufficient cause on the replayed re-assignment"
    return (v is None), (v.what if v else "explanation is a sufficient cause on the replayed case")


def run(ctx):
    explore(ctx, ctx.subrng("expl"), ctx.budget(1500, 20000))
    if not ctx.violations:
        assertions_stream(ctx, ctx.subrng("assertions"), ctx.budget(240, 3000))
    if not ctx.violations:
        modular_stream(ctx, ctx.subrng("modular"), ctx.budget(250, 3000))
    if not ctx.violations:
        rule_stream(ctx, ctx.subrng("rules"), ctx.budget(1600, 20000))


def search(ctx):
    explore(ctx, ctx.subrng("search"), ctx.budget(3000, 20000))
