"""C17 — well-formed use never crashes; unsupported constructs are rejected with RTAMTException.

Tie: stream `wf`.
  (a) supported specifications x degenerate but well-formed data: one-sample traces, variables that are
      declared and/or supplied but not used by the formula, inputs listed in any order; offline evaluate(),
      online update(), pastified update() must return normally and agree with the model (evalOff / runOnline);
  (b) every construct a monitor does not support must raise RTAMTException no later than the first
      evaluation: future operators in the online monitor (model: initTree = error rtamt, C17_online_rejects),
      unbounded future in pastify() (model: hor? = none); dense time: harness/dense.py.
  (c) stream `wf/reuse`: ONE online specification object whose first update() is rejected (bounded future without pastify(),
      a bound that is no multiple of the sampling period, a construct the monitor never supports) and is then used again: the
      supported continuation (pastify() / set_sampling_period(), then the trace) returns normally with the values a fresh object
      given the same calls returns; an unsupported construct is rejected with RTAMTException at the 2nd and 3rd update() too.
Outcome classes compared: ok / rtamt / other:<ExceptionType>.
"""
from .. import common, formula as F, impl, disc
from ..common import same_vals
from ..engine import Violation, Ctx

RULE = ("(a) random supported formulas per monitor kind with n in {1,1,2,3,..8}, 0-2 surplus declared variables (supplied or not), "
        "shuffled input order; (b) formulas containing at least one unsupported operator for the monitor kind; "
        "(c) one online object (discrete / dense) used again after a rejected first update(): pastify() or set_sampling_period() "
        "then the trace, or two more update() of an unsupported specification. distinct by "
        "(monitor, spec, data shape); non-trivial: all cases count (outcome class is the observable), at least one operator.")
EXPLANATION = ("theorems: C17_offline_total, C17_offline_order_irrelevant, C17_online_total (corollaries of C01/C02 for the tables of "
               "the current tree: no IndexError/ValueError/KeyError reachable, any n>=1, surplus variables, any order), "
               "C17_online_rejects (a future operator => RTAMTException at construction), C17_pastify_rejects_unbounded. "
               "Correspondence: outcome class of the real monitors vs the model.")
ASSUMPTIONS = ["well-formed data: every variable of the formula is supplied with one value per sample"]

VARS = ["a", "b", "c"]
FUTURE_OPS = [("t1", "next"), ("t1", "snext"), ("t1", "ev"), ("t1", "alw"), ("t2", "until"), ("tb1", "ev"), ("tb1", "alw"), ("tb2", "until")]


def inject(rng, g, f, ops):
    """Wrap a random sub-formula position of f into one of `ops`."""
    k, op = rng.choice(ops)
    inner = g.formula(1)
    if k == "t1":
        node = (k, op, inner)
    elif k == "t2":
        node = (k, op, inner, g.formula(1))
    elif k == "tb1":
        a, b = g.bounds()
        node = (k, op, a, b, inner)
    else:
        a, b = g.bounds()
        node = (k, op, a, b, inner, g.formula(1))
    return ("b", rng.choice(["and", "or"]), f, node) if rng.random() < 0.7 else ("u", "not", node)


def gen_case(rng):
    kind = rng.choice(["ok-offd", "ok-ond", "ok-past", "bad-ond", "bad-past"])
    if kind == "ok-offd":
        g = F.Gen(rng, VARS, F.ALL_DISCRETE_OFFLINE, max_bound=4)
        f = g.formula(rng.choice([1, 2, 3, 4]))
        if rng.random() < 0.45:
            f = F.shared_variable_formula(rng, g, VARS)       # one variable read directly by several temporal operators
    elif kind == "ok-ond":
        g = F.Gen(rng, VARS, F.PAST_ONLY, max_bound=4)
        f = g.formula(rng.choice([1, 2, 3, 4]))
    elif kind == "ok-past":
        g = F.Gen(rng, VARS, {"arith", "cmp", "bool", "past", "bpast", "bfuture", "buntil", "bsince", "since", "not", "future", "event"}, max_bound=3)
        f = g.formula(rng.choice([1, 2, 3, 4]))
    elif kind == "bad-ond":
        g = F.Gen(rng, VARS, F.PAST_ONLY, max_bound=4)
        f = inject(rng, g, g.formula(rng.choice([1, 2, 3])), FUTURE_OPS)
    else:
        g = F.Gen(rng, VARS, {"arith", "cmp", "bool", "past", "bpast", "bfuture", "not"}, max_bound=3)
        f = inject(rng, g, g.formula(rng.choice([1, 2, 3])), [("t1", "ev"), ("t1", "alw"), ("t2", "until")])
    n = rng.choice([1, 1, 2, 3, 5, 8])
    used = F.variables(f)
    surplus_decl = rng.sample(["u1", "u2"], rng.randint(0, 2))
    surplus_supplied = [v for v in surplus_decl if rng.random() < 0.6]
    order = used + surplus_supplied
    rng.shuffle(order)
    data = F.gen_trace(rng, order or ["a"], n)
    # some used variables are objects of a user-defined type read through a field; the data set may have a column nobody reads,
    # with entries that are not numbers
    struct = sorted(v for v in used if rng.random() < 0.5) if rng.random() < 0.2 else []
    junk = rng.choice([["idle", "run"], [None], ["x"]]) if rng.random() < 0.15 else None
    period = rng.choice([0.5, 0.25]) if rng.random() < 0.15 and any(x[0] in ("tb1", "tb2") for x in F.subformulas(f)) else None
    if kind.endswith("past") and any(x[0] == "t1" and x[1] in ("next", "snext") for x in F.subformulas(f)):
        period = None           # pastify() removes next by one default unit, not one period: known finding F35 (C08)
    return {"kind": kind, "f": f, "n": n, "data": data, "order": order, "decl": used + surplus_decl, "struct": struct, "junk": junk,
            "period": period}


def run_impl(case):
    struct = case.get("struct") or []
    per = case.get("period")            # a sampling period that is a fraction of its unit: bounds written as multiples of it
    text = impl.struct_text("out = " + F.to_text(case["f"], bound=(lambda k: repr(k * per)) if per else (lambda k: str(k))), struct)
    data, n, order = case["data"], case["n"], case["order"]
    mon = case["kind"].split("-")[1]
    kw = {"sampling": (per, "s", 0.1)} if per else {}

    def go():
        from ..msgs import Msg
        if mon == "offd":
            spec = impl.make_spec("offd", text, case["decl"], struct=struct, **kw)
            spec.parse()
            ds = {"time": list(range(n))}
            for v in order:
                ds[v] = impl.wrap(data[v], v in struct)
            if case.get("junk"):
                ds["mode"] = [case["junk"][i % len(case["junk"])] for i in range(n)]
            res = [p[1] for p in spec.evaluate(ds)]
            spec.evaluate(ds)                  # the same object and data set once more: must not raise either
            return res
        spec = impl.make_spec("ond", text, case["decl"], struct=struct, **kw)
        spec.parse()
        if mon == "past":
            spec.pastify()
        return [spec.update(i, [(v, Msg(data[v][i]) if v in struct else data[v][i]) for v in order]
                            + ([("mode", case["junk"][0])] if case.get("junk") else [])) for i in range(n)]
    return text, impl.guarded(go)


def model(cases):
    lines = []
    for c in cases:
        mon = c["kind"].split("-")[1]
        d = {v: c["data"][v] for v in F.variables(c["f"])} or {"a": [0.0] * c["n"]}
        if mon == "offd":
            lines.append(disc.proto_case("offd", c["f"], d, c["n"]))
        elif mon == "ond":
            lines.append(disc.proto_case("ond", c["f"], d, c["n"]))
        else:
            lines.append("past | " + F.to_proto(c["f"]))
    outs = common.driver_run(lines)
    res = []
    for c, o in zip(cases, outs):
        mon = c["kind"].split("-")[1]
        if mon == "past":
            if o.startswith("ok "):
                pf = F.from_proto(o[3:].split("|", 1)[1].strip())
                d = {v: c["data"][v] for v in F.variables(c["f"])} or {"a": [0.0] * c["n"]}
                res.append(disc.parse_model(common.driver_run([disc.proto_case("ond", pf, d, c["n"])])[0]))
            else:
                res.append(("err", "rtamt"))
        else:
            res.append(disc.parse_model(o))
    return res


def check_case(ctx, case, m):
    text, out = run_impl(case)
    rep = {"period": case.get("period"), "struct": case.get("struct") or [], "junk": case.get("junk"), "kind": case["kind"], "spec": text, "formula": F.to_proto(case["f"]), "n": case["n"], "data": case["data"],
           "order": case["order"], "declared": case["decl"], "impl": out, "model": m}
    ctx.nontrivial.add((case["kind"], text, case["n"], tuple(case["order"]), tuple(case["decl"])))
    if case["kind"].startswith("ok"):
        if out[0] != "ok":
            return Violation("%s: well-formed use raised %r (n=%d, supplied %r, declared %r): %s"
                             % (case["kind"], out[1:], case["n"], case["order"], case["decl"], text), rep, stream="wf/supported"), None
        if len(out[1]) != case["n"]:
            return Violation("%s: %d values for %d samples: %s" % (case["kind"], len(out[1]), case["n"], text), rep, stream="wf/supported"), None
        if m[0] != "ok" or not same_vals(out[1], m[1]):
            if any(x != x for x in out[1]):
                ctx.skipped_undef += 1
                return None, None
            return None, Violation("model outcome %r differs from the implementation's values: %s" % (m[:1], text), rep,
                                   failing_input=False, stream="wf/mirror")
        return None, None
    # unsupported construct: RTAMTException, and no value
    if out[0] != "rtamt":
        return Violation("%s: unsupported construct not rejected with RTAMTException (outcome %r): %s"
                         % (case["kind"], out[:2] if out[0] != "ok" else ("ok", out[1][:3]), text), rep, stream="wf/unsupported"), None
    if not (m[0] == "err" and m[1] == "rtamt"):
        return None, Violation("model does not reject %s (model outcome %r)" % (text, m), rep, failing_input=False, stream="wf/mirror")
    return None, None


def explore(ctx, rng, count):
    cases = [gen_case(rng) for _ in range(count)]
    ms = model(cases)
    for c, m in zip(cases, ms):
        ctx.evaluations += 1
        ctx.count("kind:" + c["kind"])
        ctx.count("n=1" if c["n"] == 1 else "n>1")
        if len(c["decl"]) > len(F.variables(c["f"])):
            ctx.count("surplus-variables")
        v, d = check_case(ctx, c, m)
        if v is None and d is None:
            ctx.traces_validated += 1
            if len(ctx.samples) < 4 and (c["kind"].startswith("bad") or c["n"] == 1):
                ctx.sample({"kind": c["kind"], "spec": "out = " + F.to_text(c["f"]), "n": c["n"], "supplied": c["order"], "declared": c["decl"]})
        if v is not None:
            ctx.violations.append(v)
            if len(ctx.violations) >= 3:
                return
        if d is not None:
            ctx.diffs.append(d)


def modular_stream(ctx, rng, count):
    """Supported multi-assertion specifications (named sub-specifications, repeated references, assertions nobody refers to,
    declared constants, explicit units) on the offline, online and pastified online monitors: every call returns normally."""
    from .. import modular
    for _ in range(count):
        mon = rng.choice(["offd", "ond", "past"])
        allow = (F.ALL_DISCRETE_OFFLINE - {"fn", "ufuture", "until"}) if mon == "past" else \
            (F.PAST_ONLY - {"fn"} if mon == "ond" else F.ALL_DISCRETE_OFFLINE - {"fn"})
        c = modular.gen_case(rng, allow, mon)
        ctx.evaluations += 1
        ctx.count("kind:modular-" + mon)
        out = modular.run_discrete(c, mon, modular=True, read_names=True)
        if out[0] != "ok":
            ctx.violations.append(Violation("%s monitor: %r on the supported multi-assertion specification %s"
                                            % (mon, out[1:], modular.spec_text(c).replace("\n", " ")),
                                            dict(modular.rep_of(c), kind="modular", monitor=mon, impl=out), stream="wf/modular"))
            if len(ctx.violations) >= 3:
                return
        else:
            ctx.traces_validated += 1
            ctx.nontrivial.add(("modular", mon, modular.spec_text(c)))


def both_modes_stream(ctx, rng, count):
    """One object of the class that owns an offline AND an online interpreter (`rtamt.StlDiscreteTimeSpecification`) used in
    both modes, in either order: evaluate() and update() of a supported past-time specification on well-formed data return
    normally, and the update() values are the offline values (C02) whichever came first (F54: one shared set_ast flag)."""
    import rtamt
    for _ in range(count):
        g = F.Gen(rng, VARS, F.PAST_ONLY - {"fn"}, max_bound=3)
        f = g.formula(rng.choice([1, 2, 3]))
        vs = sorted(F.variables(f)) or ["a"]
        n = rng.randint(1, 6)
        data = F.gen_trace(rng, vs, n)
        order = rng.choice(["eval-update", "update-eval", "update-eval-update"])
        text = "out = " + F.to_text(f)
        ctx.evaluations += 1
        ctx.count("kind:both-modes/" + order)
        rep = {"kind": "both", "spec": text, "data": data, "order": order}
        ok, what = run_both(text, vs, data, order)
        if not ok:
            ctx.violations.append(Violation("StlDiscreteTimeSpecification used %s: %s: %s" % (order, what, text), rep, stream="wf/both-modes"))
            if len(ctx.violations) >= 3:
                return
        else:
            ctx.traces_validated += 1


def run_both(text, vs, data, order):
    import rtamt
    n = len(next(iter(data.values())))
    try:
        s = rtamt.StlDiscreteTimeSpecification()
        for v in vs:
            s.declare_var(v, "float")
        s.spec = text
        s.parse()
        ds = dict({"time": list(range(n))}, **{v: list(data[v]) for v in vs})
        off = None
        on = []
        for step in order.split("-"):
            if step == "eval":
                off = [p[1] for p in s.evaluate(ds)]
            else:
                if on:
                    s.reset()
                on = [s.update(i, [(v, data[v][i]) for v in vs]) for i in range(n)]
    except rtamt.RTAMTException as e:
        return False, "RTAMTException %s" % e
    except Exception as e:          # noqa: any other exception is the crash the property excludes
        return False, "%s: %s" % (type(e).__name__, e)
    if off is not None and len(off) == len(on):
        for i, (a, b) in enumerate(zip(off, on)):
            if a != b and not (a != a and b != b):
                return False, "update #%d returned %r, evaluate() %r at the same sample" % (i, b, a)
    return True, "returns normally"


# ------------------------------------------------------------------ one object used again after a rejected update()
REUSE_VARIANTS = ["d-pastify", "d-pastify", "d-period", "d-stay", "c-pastify", "c-stay"]


def _has(f, pred):
    return any(pred(x) for x in F.subformulas(f))


def gen_reuse(rng):
    """One ONLINE specification object whose first update() is rejected, and what the user does with the same object next:
      d-pastify / c-pastify  bounded future operators without pastify(): rejected; pastify(); the trace from its start
      d-period               a bound that is not a multiple of the (default) sampling period: rejected; set_sampling_period()
                             to a period all bounds are multiples of; the trace from its start
      d-stay / c-stay        a construct the monitor never supports: update() three times
    (d = discrete time, c = dense time)."""
    from .. import dense
    variant = rng.choice(REUSE_VARIANTS)
    case = {"kind": "reuse", "variant": variant, "period": None}
    if variant.startswith("d"):
        if variant == "d-pastify":
            g = F.Gen(rng, VARS, {"arith", "cmp", "bool", "past", "bpast", "bfuture", "buntil", "bsince", "since", "not", "event"}, max_bound=3)
            f = g.formula(rng.choice([1, 2, 3]))
            if not _has(f, lambda x: (x[0] == "tb1" and x[1] in ("ev", "alw")) or (x[0] == "tb2" and x[1] == "until")):
                f = inject(rng, g, f, [("tb1", "ev"), ("tb1", "alw"), ("tb2", "until")])
            n = rng.choice([1, 2, 3, 5, 7])
        elif variant == "d-period":
            g = F.Gen(rng, VARS, F.PAST_ONLY - {"fn"}, max_bound=5)
            f = g.formula(rng.choice([1, 2, 3]))
            if not _has(f, lambda x: x[0] in ("tb1", "tb2") and (x[2] % 2 == 1 or x[3] % 2 == 1)):
                a = rng.choice([0, 1, 2, 3])
                b = a + rng.choice([0, 1, 2])
                if a % 2 == 0 and b % 2 == 0:
                    b += 1
                f = ("b", rng.choice(["and", "or"]), f, ("tb1", rng.choice(["once", "hist"]), a, b, g.formula(1)))
            case["period"] = rng.choice([[500, "ms"], [0.5, "s", 0.1]])          # bounds are written as multiples of 0.5 s
            n = rng.choice([1, 2, 4, 7])
        else:
            g = F.Gen(rng, VARS, F.PAST_ONLY - {"fn"}, max_bound=4)
            f = inject(rng, g, g.formula(rng.choice([1, 2])), FUTURE_OPS)
            n = 3
        vs = sorted(F.variables(f)) or ["a"]
        case.update(f=f, n=n, data=F.gen_trace(rng, vs, n))
        return case
    g = dense.DGen(rng, dense.VARS[:2], dense.DENSE_ON | ({"bfuture"} if variant == "c-pastify" else set()), max_bound=4)
    f = g.formula(rng.choice([1, 2]))
    if variant == "c-pastify":
        if not _has(f, lambda x: x[0] == "tb1" and x[1] in ("ev", "alw")):
            f = inject(rng, g, f, [("tb1", "ev"), ("tb1", "alw")])
    else:
        f = inject(rng, g, f, dense.DENSE_UNSUPPORTED_BOTH + dense.DENSE_UNSUPPORTED_ONLINE)
    vs = sorted(F.variables(f)) or ["x"]
    sig = dense.gen_signals(rng, vs)
    stamps = sorted({t for s in sig.values() for (t, _) in s})[1:]
    k = 2 if variant == "c-stay" else rng.choice([0, 1, 2])
    cuts = sorted(rng.sample(stamps, min(k, len(stamps))))
    while variant == "c-stay" and len(cuts) < k:          # a short signal: the later updates bring samples after its end
        cuts.append((cuts[-1] if cuts else max(stamps + [0])) + 1)
    case.update(f=f, sig=sig, cuts=cuts)
    return case


def _same(a, b):
    if isinstance(a, (list, tuple)) and isinstance(b, (list, tuple)):
        return len(a) == len(b) and all(_same(x, y) for x, y in zip(a, b))
    return a == b or (a != a and b != b)


def reuse_run(case):
    """-> (text, same, fresh): the outcome of every call made on the one object (first the update() that is to be rejected, then
    for the continuation variants the configuration call and the updates until one does not return; for the 'stay' variants two
    more updates), and the outcomes of the continuation on a fresh object (None for the 'stay' variants)."""
    from .. import dense
    variant, f, per = case["variant"], case["f"], case.get("period")
    if variant.startswith("c"):
        text = dense.spec_text(f)
        vs = sorted(case["sig"])
        nup, chunks = dense.online_chunks(case["sig"], case["cuts"])

        def call(s, i):
            return s.update(*[[v, dense.py_sig(chunks[v][i])] for v in vs])
    else:
        text = "out = " + F.to_text(f, bound=(lambda k: repr(k * 0.5)) if per else (lambda k: str(k)))
        vs = sorted(case["data"])
        nup = case["n"]

        def call(s, i):
            return s.update(i * 0.5 if per else i, [(v, case["data"][v][i]) for v in vs])

    def new():
        s = impl.make_spec("onc" if variant.startswith("c") else "ond", text, vs)
        s.parse()
        return s

    def config(s):
        return s.set_sampling_period(*per) if variant == "d-period" else s.pastify()

    def continuation(s):
        outs = [impl.guarded(lambda: config(s))]
        for i in range(nup):
            if outs[-1][0] != "ok":
                break
            outs.append(impl.guarded(lambda: call(s, i)))
        return outs

    made = impl.guarded(new)
    if made[0] != "ok":
        return text, None, made
    s = made[1]
    if variant.endswith("stay"):
        return text, [impl.guarded(lambda: call(s, i)) for i in range(3)], None
    same = [impl.guarded(lambda: call(s, 0))] + continuation(s)
    return text, same, continuation(new())


def check_reuse(ctx, case):
    """Violation or None.  Judged: the exception class of a rejected call; that the well-formed continuation returns normally;
    its values against those of a fresh object that is configured by the same calls."""
    from .. import dense
    text, same, fresh = reuse_run(case)
    variant = case["variant"]
    rep = {"kind": "reuse", "variant": variant, "spec": text, "formula": F.to_proto(case["f"]), "period": case.get("period"),
           "calls": "parse(); update() [to be rejected]; " + ("update(); update()" if variant.endswith("stay") else
                                                               "%s; update() x %d from the start of the trace"
                                                               % ("set_sampling_period(%s)" % ", ".join(map(repr, case["period"]))
                                                                  if variant == "d-period" else "pastify()",
                                                                  len(case["cuts"]) + 1 if "cuts" in case else case["n"])),
           "impl": same, "fresh": fresh}
    if variant.startswith("c"):
        rep.update(signals=dense.sig_rep(case["sig"]), cuts=[str(c) for c in case["cuts"]])
    else:
        rep.update(n=case["n"], data=case["data"])
    ctx.nontrivial.add(("reuse", variant, text, str(rep.get("signals") or rep.get("data")), str(rep.get("cuts"))))

    def bad(stage, what):
        rep["stage"] = stage
        return Violation("one %s online specification object, %s: %s: %s"
                         % ("dense-time" if variant.startswith("c") else "discrete-time", variant, what, text), rep, stream="wf/reuse")
    if same is None:
        ctx.count("reuse:not-constructed")                         # parse() of a generated text raised: not this stream's subject
        return None
    if variant.endswith("stay"):
        for k, o in enumerate(same):
            if o[0] != "rtamt":
                return bad("update#%d" % (k + 1), "update() no. %d of an unsupported specification is not rejected with RTAMTException "
                           "(outcome %r)" % (k + 1, o[:2] if o[0] != "ok" else "ok"))
        return None
    if same[0][0] != "rtamt":
        if variant == "d-period":
            ctx.count("reuse:first-update-not-rejected")           # not a construct the property lists: nothing to judge
            return None
        return bad("first", "bounded future operator without pastify() not rejected with RTAMTException (outcome %r)"
                   % (same[0][:2] if same[0][0] != "ok" else "ok",))
    if any(o[0] != "ok" for o in fresh):
        ctx.count("reuse:fresh-object-raises")                     # the business of the other streams
        return None
    what = "pastify()" if variant.endswith("pastify") else "set_sampling_period(%s)" % ", ".join(map(repr, case["period"]))
    for k, o in enumerate(same[1:]):
        if o[0] != "ok":
            return bad("continuation", "after the rejected update() and %s, %s raised %r; a fresh object given the same calls returns normally"
                       % (what, what if k == 0 else "update() no. %d" % k, o[1:]))
    for k, (o, r) in enumerate(zip(same[2:], fresh[1:])):
        if not _same(o[1], r[1]):
            return bad("values", "after the rejected update() and %s, update() no. %d returned %r; a fresh object given the same calls %r"
                       % (what, k + 1, o[1], r[1]))
    return None


def shrink_reuse(ctx, case, v0, budget=40):
    """Smaller formula / shorter trace that fails at the same stage."""
    stage = v0.replay.get("stage")
    scratch = Ctx(ctx.id, ctx.tier, ctx.seed)

    def fails(c):
        try:
            v = check_reuse(scratch, c)
        except Exception:       # noqa: a candidate the generators would not produce
            return None
        return v if v is not None and v.replay.get("stage") == stage else None
    cur, best = case, v0
    improved = True
    while improved and budget > 0:
        improved = False
        cands = [dict(cur, f=g) for g in F.shrink_candidates(cur["f"])]
        if "n" in cur and cur["n"] > (3 if cur["variant"].endswith("stay") else 1):
            cands.insert(0, dict(cur, n=cur["n"] - 1, data={k: v[:-1] for k, v in cur["data"].items()}))
        if cur.get("cuts") and not cur["variant"].endswith("stay"):
            cands.insert(0, dict(cur, cuts=cur["cuts"][:-1]))
        for c in cands:
            budget -= 1
            if budget < 0:
                break
            v = fails(c)
            if v is not None:
                cur, best, improved = c, v, True
                break
    return best


def reuse_case_of_rep(obj):
    from fractions import Fraction
    from .. import dense
    c = {"kind": "reuse", "variant": obj["variant"], "f": F.from_proto(obj["formula"]), "period": obj.get("period")}
    if obj["variant"].startswith("c"):
        c.update(sig=dense.sig_of_rep(obj["signals"]), cuts=[Fraction(x) for x in obj["cuts"]])
    else:
        c.update(n=obj["n"], data={k: [float(x) for x in v] for k, v in obj["data"].items()})
    return c


def reuse_stream(ctx, rng, count):
    """The same specification object after an update() that was rejected (F54's neighbourhood: what the object remembers about
    having handed its AST to the interpreter): the supported continuation returns normally with the values of a fresh object;
    an unsupported construct is rejected with RTAMTException on every call, not only on the first."""
    for _ in range(count):
        c = gen_reuse(rng)
        ctx.evaluations += 1
        ctx.count("kind:reuse/" + c["variant"])
        v = check_reuse(ctx, c)
        if v is None:
            ctx.traces_validated += 1
            if c["variant"] in ("d-pastify", "c-stay"):
                ctx.sample({"kind": "reuse/" + c["variant"], "spec": "out = " + F.to_text(c["f"])}, limit=6)
        else:
            ctx.violations.append(shrink_reuse(ctx, c, v))
            if len(ctx.violations) >= 3:
                return


def replay(ctx, obj):
    if obj.get("kind") == "reuse":
        v = check_reuse(Ctx(ctx.id, ctx.tier, ctx.seed), reuse_case_of_rep(obj))
        return (v is None), (v.what if v else "outcome as required on the replayed call sequence")
    if obj.get("kind") == "both":
        ok, what = run_both(obj["spec"], sorted(obj["data"]), obj["data"], obj["order"])
        return ok, what
    if obj.get("kind") == "modular":
        from .. import modular
        c = modular.case_of_rep(obj)
        out = modular.run_discrete(c, obj["monitor"], modular=True, read_names=True)
        return out[0] == "ok", ("returns normally" if out[0] == "ok" else "raised %r" % (out[1:],))
    if obj.get("kind", "").endswith("c"):
        from .. import dense
        return dense.replay_wf(ctx, obj)
    c = {"kind": obj["kind"], "f": F.from_proto(obj["formula"]), "n": obj["n"], "order": obj["order"], "decl": obj["declared"],
         "data": {k: [float(x) for x in v] for k, v in obj["data"].items()}, "struct": obj.get("struct") or [], "junk": obj.get("junk"), "period": obj.get("period")}
    m, = model([c])
    v, d = check_case(Ctx(ctx.id, ctx.tier, ctx.seed), c, m)
    return (v is None), (v.what if v else "outcome as required on the replayed case")


def run(ctx):
    explore(ctx, ctx.subrng("wf"), ctx.budget(1500, 12000))
    if not ctx.violations:
        modular_stream(ctx, ctx.subrng("wf-mod"), ctx.budget(300, 4000))
    if not ctx.violations:
        both_modes_stream(ctx, ctx.subrng("wf-both"), ctx.budget(150, 1500))
    if not ctx.violations:
        reuse_stream(ctx, ctx.subrng("wf-reuse"), ctx.budget(200, 2000))
    if not ctx.violations:
        try:
            from .. import dense
            dense.wf_stream(ctx)
        except ImportError:
            ctx.notes.append("dense-time wf stream not available yet")


def search(ctx):
    explore(ctx, ctx.subrng("search"), ctx.budget(1500, 8000))
