"""C17 — well-formed use never crashes; unsupported constructs are rejected with RTAMTException.

Tie: stream `wf`.
  (a) supported specifications x degenerate but well-formed data: one-sample traces, variables that are
      declared and/or supplied but not used by the formula, inputs listed in any order; offline evaluate(),
      online update(), pastified update() must return normally and agree with the model (evalOff / runOnline);
  (b) every construct a monitor does not support must raise RTAMTException no later than the first
      evaluation: future operators in the online monitor (model: initTree = error rtamt, C17_online_rejects),
      unbounded future in pastify() (model: hor? = none); dense time: harness/dense.py.
Outcome classes compared: ok / rtamt / other:<ExceptionType>.
"""
from .. import common, formula as F, impl, disc
from ..common import same_vals
from ..engine import Violation, Ctx

RULE = ("(a) random supported formulas per monitor kind with n in {1,1,2,3,..8}, 0-2 surplus declared variables (supplied or not), "
        "shuffled input order; (b) formulas containing at least one unsupported operator for the monitor kind. distinct by "
        "(monitor, spec, data shape); non-trivial: all cases count (outcome class is the observable), at least one operator.")
EXPLANATION = ("theorems: C17_offline_total, C17_offline_order_irrelevant, C17_online_total (corollaries of C01/C02 for the tables of "
               "the current tree: no IndexError/ValueError/KeyError reachable, any n>=1, surplus variables, any order), "
               "C17_online_rejects (a future operator => RTAMTException at construction), C17_pastify_rejects_unbounded. "
               "Correspondence: outcome class of the real monitors vs the model.")
ASSUMPTIONS = ["well-formed data: every variable of the formula is supplied with one value per sample"]

VARS = ["a", "b", "c"]
FUTURE_OPS = [("t1", "next"), ("t1", "snext"), ("t1", "ev"), ("t1", "alw"), ("t2", "until"), ("tb1", "ev"), ("tb1", "alw"), ("tb2", "until")]


def inject(rng, g, f, ops):
    """Wrap a random sub-formula position of f into one of `ops`."""
    k, op = rng.choice(ops)
    inner = g.formula(1)
    if k == "t1":
        node = (k, op, inner)
    elif k == "t2":
        node = (k, op, inner, g.formula(1))
    elif k == "tb1":
        a, b = g.bounds()
        node = (k, op, a, b, inner)
    else:
        a, b = g.bounds()
        node = (k, op, a, b, inner, g.formula(1))
    return ("b", rng.choice(["and", "or"]), f, node) if rng.random() < 0.7 else ("u", "not", node)


def gen_case(rng):
    kind = rng.choice(["ok-offd", "ok-ond", "ok-past", "bad-ond", "bad-past"])
    if kind == "ok-offd":
        g = F.Gen(rng, VARS, F.ALL_DISCRETE_OFFLINE, max_bound=4)
        f = g.formula(rng.choice([1, 2, 3, 4]))
        if rng.random() < 0.45:
            f = F.shared_variable_formula(rng, g, VARS)       # one variable read directly by several temporal operators
    elif kind == "ok-ond":
        g = F.Gen(rng, VARS, F.PAST_ONLY, max_bound=4)
        f = g.formula(rng.choice([1, 2, 3, 4]))
    elif kind == "ok-past":
        g = F.Gen(rng, VARS, {"arith", "cmp", "bool", "past", "bpast", "bfuture", "buntil", "bsince", "since", "not", "future", "event"}, max_bound=3)
        f = g.formula(rng.choice([1, 2, 3, 4]))
    elif kind == "bad-ond":
        g = F.Gen(rng, VARS, F.PAST_ONLY, max_bound=4)
        f = inject(rng, g, g.formula(rng.choice([1, 2, 3])), FUTURE_OPS)
    else:
        g = F.Gen(rng, VARS, {"arith", "cmp", "bool", "past", "bpast", "bfuture", "not"}, max_bound=3)
        f = inject(rng, g, g.formula(rng.choice([1, 2, 3])), [("t1", "ev"), ("t1", "alw"), ("t2", "until")])
    n = rng.choice([1, 1, 2, 3, 5, 8])
    used = F.variables(f)
    surplus_decl = rng.sample(["u1", "u2"], rng.randint(0, 2))
    surplus_supplied = [v for v in surplus_decl if rng.random() < 0.6]
    order = used + surplus_supplied
    rng.shuffle(order)
    data = F.gen_trace(rng, order or ["a"], n)
    # some used variables are objects of a user-defined type read through a field; the data set may have a column nobody reads,
    # with entries that are not numbers
    struct = sorted(v for v in used if rng.random() < 0.5) if rng.random() < 0.2 else []
    junk = rng.choice([["idle", "run"], [None], ["x"]]) if rng.random() < 0.15 else None
    period = rng.choice([0.5, 0.25]) if rng.random() < 0.15 and any(x[0] in ("tb1", "tb2") for x in F.subformulas(f)) else None
    if kind.endswith("past") and any(x[0] == "t1" and x[1] in ("next", "snext") for x in F.subformulas(f)):
        period = None           # pastify() removes next by one default unit, not one period: known finding F35 (C08)
    return {"kind": kind, "f": f, "n": n, "data": data, "order": order, "decl": used + surplus_decl, "struct": struct, "junk": junk,
            "period": period}


def run_impl(case):
    struct = case.get("struct") or []
    per = case.get("period")            # a sampling period that is a fraction of its unit: bounds written as multiples of it
    text = impl.struct_text("out = " + F.to_text(case["f"], bound=(lambda k: repr(k * per)) if per else (lambda k: str(k))), struct)
    data, n, order = case["data"], case["n"], case["order"]
    mon = case["kind"].split("-")[1]
    kw = {"sampling": (per, "s", 0.1)} if per else {}

    def go():
        from ..msgs import Msg
        if mon == "offd":
            spec = impl.make_spec("offd", text, case["decl"], struct=struct, **kw)
            spec.parse()
            ds = {"time": list(range(n))}
            for v in order:
                ds[v] = impl.wrap(data[v], v in struct)
            if case.get("junk"):
                ds["mode"] = [case["junk"][i % len(case["junk"])] for i in range(n)]
            res = [p[1] for p in spec.evaluate(ds)]
            spec.evaluate(ds)                  # the same object and data set once more: must not raise either
            return res
        spec = impl.make_spec("ond", text, case["decl"], struct=struct, **kw)
        spec.parse()
        if mon == "past":
            spec.pastify()
        return [spec.update(i, [(v, Msg(data[v][i]) if v in struct else data[v][i]) for v in order]
                            + ([("mode", case["junk"][0])] if case.get("junk") else [])) for i in range(n)]
    return text, impl.guarded(go)


def model(cases):
    lines = []
    for c in cases:
        mon = c["kind"].split("-")[1]
        d = {v: c["data"][v] for v in F.variables(c["f"])} or {"a": [0.0] * c["n"]}
        if mon == "offd":
            lines.append(disc.proto_case("offd", c["f"], d, c["n"]))
        elif mon == "ond":
            lines.append(disc.proto_case("ond", c["f"], d, c["n"]))
        else:
            lines.append("past | " + F.to_proto(c["f"]))
    outs = common.driver_run(lines)
    res = []
    for c, o in zip(cases, outs):
        mon = c["kind"].split("-")[1]
        if mon == "past":
            if o.startswith("ok "):
                pf = F.from_proto(o[3:].split("|", 1)[1].strip())
                d = {v: c["data"][v] for v in F.variables(c["f"])} or {"a": [0.0] * c["n"]}
                res.append(disc.parse_model(common.driver_run([disc.proto_case("ond", pf, d, c["n"])])[0]))
            else:
                res.append(("err", "rtamt"))
        else:
            res.append(disc.parse_model(o))
    return res


def check_case(ctx, case, m):
    text, out = run_impl(case)
    rep = {"period": case.get("period"), "struct": case.get("struct") or [], "junk": case.get("junk"), "kind": case["kind"], "spec": text, "formula": F.to_proto(case["f"]), "n": case["n"], "data": case["data"],
           "order": case["order"], "declared": case["decl"], "impl": out, "model": m}
    ctx.nontrivial.add((case["kind"], text, case["n"], tuple(case["order"]), tuple(case["decl"])))
    if case["kind"].startswith("ok"):
        if out[0] != "ok":
            return Violation("%s: well-formed use raised %r (n=%d, supplied %r, declared %r): %s"
                             % (case["kind"], out[1:], case["n"], case["order"], case["decl"], text), rep, stream="wf/supported"), None
        if len(out[1]) != case["n"]:
            return Violation("%s: %d values for %d samples: %s" % (case["kind"], len(out[1]), case["n"], text), rep, stream="wf/supported"), None
        if m[0] != "ok" or not same_vals(out[1], m[1]):
            if any(x != x for x in out[1]):
                ctx.skipped_undef += 1
                return None, None
            return None, Violation("model outcome %r differs from the implementation's values: %s" % (m[:1], text), rep,
                                   failing_input=False, stream="wf/mirror")
        return None, None
    # unsupported construct: RTAMTException, and no value
    if out[0] != "rtamt":
        return Violation("%s: unsupported construct not rejected with RTAMTException (outcome %r): %s"
                         % (case["kind"], out[:2] if out[0] != "ok" else ("ok", out[1][:3]), text), rep, stream="wf/unsupported"), None
    if not (m[0] == "err" and m[1] == "rtamt"):
        return None, Violation("model does not reject %s (model outcome %r)" % (text, m), rep, failing_input=False, stream="wf/mirror")
    return None, None


def explore(ctx, rng, count):
    cases = [gen_case(rng) for _ in range(count)]
    ms = model(cases)
    for c, m in zip(cases, ms):
        ctx.evaluations += 1
        ctx.count("kind:" + c["kind"])
        ctx.count("n=1" if c["n"] == 1 else "n>1")
        if len(c["decl"]) > len(F.variables(c["f"])):
            ctx.count("surplus-variables")
        v, d = check_case(ctx, c, m)
        if v is None and d is None:
            ctx.traces_validated += 1
            if len(ctx.samples) < 4 and (c["kind"].startswith("bad") or c["n"] == 1):
                ctx.sample({"kind": c["kind"], "spec": "out = " + F.to_text(c["f"]), "n": c["n"], "supplied": c["order"], "declared": c["decl"]})
        if v is not None:
            ctx.violations.append(v)
            if len(ctx.violations) >= 3:
                return
        if d is not None:
            ctx.diffs.append(d)


def modular_stream(ctx, rng, count):
    """Supported multi-assertion specifications (named sub-specifications, repeated references, assertions nobody refers to,
    declared constants, explicit units) on the offline, online and pastified online monitors: every call returns normally."""
    from .. import modular
    for _ in range(count):
        mon = rng.choice(["offd", "ond", "past"])
        allow = (F.ALL_DISCRETE_OFFLINE - {"fn", "ufuture", "until"}) if mon == "past" else \
            (F.PAST_ONLY - {"fn"} if mon == "ond" else F.ALL_DISCRETE_OFFLINE - {"fn"})
        c = modular.gen_case(rng, allow, mon)
        ctx.evaluations += 1
        ctx.count("kind:modular-" + mon)
        out = modular.run_discrete(c, mon, modular=True, read_names=True)
        if out[0] != "ok":
            ctx.violations.append(Violation("%s monitor: %r on the supported multi-assertion specification %s"
                                            % (mon, out[1:], modular.spec_text(c).replace("\n", " ")),
                                            dict(modular.rep_of(c), kind="modular", monitor=mon, impl=out), stream="wf/modular"))
            if len(ctx.violations) >= 3:
                return
        else:
            ctx.traces_validated += 1
            ctx.nontrivial.add(("modular", mon, modular.spec_text(c)))


def both_modes_stream(ctx, rng, count):
    """One object of the class that owns an offline AND an online interpreter (`rtamt.StlDiscreteTimeSpecification`) used in
    both modes, in either order: evaluate() and update() of a supported past-time specification on well-formed data return
    normally, and the update() values are the offline values (C02) whichever came first (F54: one shared set_ast flag)."""
    import rtamt
    for _ in range(count):
        g = F.Gen(rng, VARS, F.PAST_ONLY - {"fn"}, max_bound=3)
        f = g.formula(rng.choice([1, 2, 3]))
        vs = sorted(F.variables(f)) or ["a"]
        n = rng.randint(1, 6)
        data = F.gen_trace(rng, vs, n)
        order = rng.choice(["eval-update", "update-eval", "update-eval-update"])
        text = "out = " + F.to_text(f)
        ctx.evaluations += 1
        ctx.count("kind:both-modes/" + order)
        rep = {"kind": "both", "spec": text, "data": data, "order": order}
        ok, what = run_both(text, vs, data, order)
        if not ok:
            ctx.violations.append(Violation("StlDiscreteTimeSpecification used %s: %s: %s" % (order, what, text), rep, stream="wf/both-modes"))
            if len(ctx.violations) >= 3:
                return
        else:
            ctx.traces_validated += 1


def run_both(text, vs, data, order):
    import rtamt
    n = len(next(iter(data.values())))
    try:
        s = rtamt.StlDiscreteTimeSpecification()
        for v in vs:
            s.declare_var(v, "float")
        s.spec = text
        s.parse()
        ds = dict({"time": list(range(n))}, **{v: list(data[v]) for v in vs})
        off = None
        on = []
        for step in order.split("-"):
            if step == "eval":
                off = [p[1] for p in s.evaluate(ds)]
            else:
                if on:
                    s.reset()
                on = [s.update(i, [(v, data[v][i]) for v in vs]) for i in range(n)]
    except rtamt.RTAMTException as e:
        return False, "RTAMTException %s" % e
    except Exception as e:          # noqa: any other exception is the crash the property excludes
        return False, "%s: %s" % (type(e).__name__, e)
    if off is not None and len(off) == len(on):
        for i, (a, b) in enumerate(zip(off, on)):
            if a != b and not (a != a and b != b):
                return False, "update #%d returned %r, evaluate() %r at the same sample" % (i, b, a)
    return True, "returns normally"


def replay(ctx, obj):
    if obj.get("kind") == "both":
        ok, what = run_both(obj["spec"], sorted(obj["data"]), obj["data"], obj["order"])
        return ok, what
    if obj.get("kind") == "modular":
        from .. import modular
        c = modular.case_of_rep(obj)
        out = modular.run_discrete(c, obj["monitor"], modular=True, read_names=True)
        return out[0] == "ok", ("returns normally" if out[0] == "ok" else "raised %r" % (out[1:],))
    if obj.get("kind", "").endswith("c"):
        from .. import dense
        return dense.replay_wf(ctx, obj)
    c = {"kind": obj["kind"], "f": F.from_proto(obj["formula"]), "n": obj["n"], "order": obj["order"], "decl": obj["declared"],
         "data": {k: [float(x) for x in v] for k, v in obj["data"].items()}, "struct": obj.get("struct") or [], "junk": obj.get("junk"), "period": obj.get("period")}
    m, = model([c])
    v, d = check_case(Ctx(ctx.id, ctx.tier, ctx.seed), c, m)
    return (v is None), (v.what if v else "outcome as required on the replayed case")


def run(ctx):
    explore(ctx, ctx.subrng("wf"), ctx.budget(1500, 12000))
    if not ctx.violations:
        modular_stream(ctx, ctx.subrng("wf-mod"), ctx.budget(300, 4000))
    if not ctx.violations:
        both_modes_stream(ctx, ctx.subrng("wf-both"), ctx.budget(150, 1500))
    if not ctx.violations:
        try:
            from .. import dense
            dense.wf_stream(ctx)
        except ImportError:
            ctx.notes.append("dense-time wf stream not available yet")


def search(ctx):
    explore(ctx, ctx.subrng("search"), ctx.budget(1500, 8000))
