"""C03 — the pastified monitor reports the original robustness with delay hor.

Tie: stream `past-d`.  For every generated bounded-future specification and trace:
   implementation  parse(); pastify(); spec_print()   vs  name(pastify φ) of the model (M-alg, Pastify.lean)
   implementation  update() x n                        vs  model runOnline (pastify φ)  (bit-for-bit)
   property oracle for i >= hor:  update_i  =  offline evaluate() of the un-pastified spec on the prefix 0..i, at i-hor
                                           =  model rho on that prefix
Configuration: the property is stated for bounds in the default unit and a sampling period of one default unit.  One case in four
of the stream, and every case of the stream `next-configured` (specifications with next / s_next), is monitored with another
default unit (ms, us, ns; s), the period written in that unit or a finer one (1 ms = 1000 us), and set_sampling_period called
before parse(), between parse() and pastify() or after pastify() (the period is read when the first sample arrives, so the delays
pastify() builds must not depend on what happens to be configured when it is called); the offline reference is configured the
same way (period set before parse()).  The model is in samples and does not change.
The theorem (C03_pastified_monitor_partial) covers the fragment `frag` (asked from the model, never
re-implemented here); outside it the algorithm is wrong near the start of the trace (finding F15).
"""
from .. import common, formula as F, impl, disc
from ..common import same_vals
from ..engine import Violation, Ctx

RULE = ("bounded-future specs (depth<=5, bounds 0..4, horizons up to ~12): bounded eventually/always/until, next/s_next, all "
        "past and event operators, Boolean and arithmetic operators in arbitrary nesting; future-free specs as a sub-stream; "
        "traces of length 1..14; one case in four, and a stream of specifications with next / s_next, under another default unit "
        "(period = one default unit, possibly written in a finer unit) with set_sampling_period before parse(), after parse() or "
        "after pastify(). distinct by (spec, data); non-trivial when some update with i>=hor has a finite value or the "
        "outputs are not constant.")
EXPLANATION = ("theorems: C03_past_identity (pastify = identity on future-free specs), C03_past_online (result has no future "
               "operator, intervals well formed), C03_past_eq_delayed (value of the pastified formula at i = original at i-R, "
               "for every remaining horizon R>=hor and i>=R, on the fragment), C03_pastified_monitor_partial (online monitor of "
               "pastify φ returns rho φ at i-hor on the trace seen so far). Correspondence: spec_print() after pastify() vs the "
               "model's pastify; update() stream vs the mirror; oracle = offline evaluate() of the original on each prefix.")
ASSUMPTIONS = ["bounds written in the default unit and sampling period = 1 default unit, in any default unit and with the period set "
               "at any place before the first update() (explicit units: finding F17, other periods: finding F35, see C08)",
               "bounded linear order (no NaN)"]

VARS = ["a", "b", "c"]
ALLOW = {"arith", "cmp", "bool", "iffxor", "event", "past", "future", "bpast", "bfuture", "since", "bsince", "buntil", "not"}


def region_past_over_future(case):
    return not case.get("frag", True)


REGIONS = {"past-or-event-operator-over-future-subformula": region_past_over_future}


UNITS = ["s", "ms", "us", "ns"]
NS = {"s": 10 ** 9, "ms": 10 ** 6, "us": 10 ** 3, "ns": 1}
# where set_sampling_period is called: the period is a configuration of the monitor that is read when the first sample arrives
ORDERS = ["before-parse", "after-parse", "after-pastify"]


def gen_config(rng):
    """A configuration in which the property is stated the same way (bounds in the default unit, period = one default unit): the
    default unit, the period written in the default unit or in a finer one (1 ms = 1000 us), and the place of set_sampling_period
    - before parse(), between parse() and pastify(), or after pastify() (before the first update())."""
    unit = rng.choice(["ms", "us", "ns", "ms", "us", "s"])
    punit = unit if rng.random() < 0.6 else rng.choice([u for u in UNITS if NS[u] <= NS[unit]])
    order = "after-pastify" if rng.random() < 0.6 else rng.choice(ORDERS)
    return {"unit": unit, "period": NS[unit] // NS[punit], "punit": punit, "order": order}


def sampling_of(cfg):
    return (cfg["period"], cfg["punit"], 0.1)


def offline_kw(case):
    cfg = case.get("cfg")
    return {} if not cfg else {"unit": cfg["unit"], "sampling": sampling_of(cfg)}


def run_impl(case, limit=8.0):
    text = "out = " + F.to_text(case["f"])
    vs = case["decl"]
    data, n = case["data"], case["n"]
    cfg = case.get("cfg")

    def go():
        if cfg:
            spec = impl.make_spec("ond", text, vs, unit=cfg["unit"], sampling=sampling_of(cfg) if cfg["order"] == "before-parse" else None)
        else:
            spec = impl.make_spec("ond", text, vs)
        spec.parse()
        if cfg and cfg["order"] == "after-parse":
            spec.set_sampling_period(*sampling_of(cfg))
        spec.pastify()
        if impl.twice(text):
            spec.pastify()          # the result has no future operator: a second pastify() must not change it
        if cfg and cfg["order"] == "after-pastify":
            spec.set_sampling_period(*sampling_of(cfg))
        printed = spec.spec_print()
        outs = []
        for i in range(n):
            outs.append(spec.update(i, [(v, data[v][i]) for v in vs]))
        return printed, outs
    if not cfg:
        return text, impl.guarded(go)
    # the same specification in the plain configuration takes milliseconds: a configured run that does not come back (a delay
    # counted in the wrong unit) is an outcome; a busy machine is not - the call is repeated once with a generous limit
    res = impl.guarded(go, limit, True)
    if res[0] == "other" and res[1] == "Timeout" and limit < 60.0:
        return run_impl(case, limit=90.0)
    return text, res


def config_text(case):
    cfg = case.get("cfg")
    if not cfg:
        return ""
    return " [unit=%s, period=%s %s set %s()]" % (cfg["unit"], cfg["period"], cfg["punit"], cfg["order"].replace("-", " "))


def model(cases):
    lines = []
    for c in cases:
        lines.append("past | " + F.to_proto(c["f"]))
        lines.append("frag | frag | " + F.to_proto(c["f"]))
        lines.append("pastgen | " + F.to_proto(c["f"]))
    outs = common.driver_run(lines)
    lines2, idx = [], []
    for i, c in enumerate(cases):
        p = outs[3 * i]
        c["pastgen"] = outs[3 * i + 2].strip()
        c["past_line"] = p.strip()
        if not p.startswith("ok "):
            raise common.HarnessError("model has no horizon for a bounded formula: %s" % p)
        head, proto = p[3:].split("|", 1)
        c["hor"] = int(head.strip())
        c["past"] = F.from_proto(proto.strip())
        c["frag"] = outs[3 * i + 1].strip() == "1"
        lines2.append(disc.proto_case("ond", c["past"], c["data"], c["n"]))
        for k in range(c["hor"], c["n"]):
            pre = {v: c["data"][v][:k + 1] for v in c["data"]}
            lines2.append(disc.proto_case("rhot", c["f"], pre, k + 1))
        idx.append(len(lines2))
    outs2 = common.driver_run(lines2) if lines2 else []
    pos = 0
    for c, end in zip(cases, idx):
        c["m_on"] = disc.parse_model(outs2[pos])
        c["m_rho"] = [disc.parse_model(o) for o in outs2[pos + 1:end]]
        pos = end


def check_case(ctx, case):
    text, res = run_impl(case)
    h, n = case["hor"], case["n"]
    rep = {"spec": text, "formula": F.to_proto(case["f"]), "data": case["data"], "n": n, "horizon": h,
           "model_pastified": F.to_proto(case["past"]), "in_fragment": case["frag"], "impl": res, "model_online": case["m_on"]}
    if case.get("cfg"):
        rep["config"] = dict(case["cfg"])
    if res[0] != "ok":
        return Violation("parse/pastify/update raised %r on bounded-future spec %s%s" % (res[1:], text, config_text(case)), rep,
                         stream=case["stream"]), None
    printed, outs = res[1]
    if disc.nontrivial(outs[h:]) or len(set(outs)) > 1:
        ctx.nontrivial.add(disc.data_key(text, case["data"]))
    diff = None
    expected_name = F.to_name(case["past"]) + "\n"
    if printed != expected_name:
        diff = Violation("pastify() printed %r, the model's pastify gives %r%s" % (printed.strip(), expected_name.strip(), config_text(case)), rep,
                         failing_input=False, stream="past-d/spec_print")
    elif case["m_on"][0] != "ok" or not same_vals(outs, case["m_on"][1]):
        if not any(m[0] == "undef" for m in case["m_rho"]) or case["m_on"][0] != "ok":
            diff = Violation("update() stream differs from the mirror of the pastified monitor: %s%s" % (text, config_text(case)), rep,
                             failing_input=False, stream="past-d/mirror")
    if diff is None and case.get("pastgen") is not None and case["pastgen"] != case["past_line"]:
        diff = Violation("the horizon / pastifier methods translated from the source (run under the Lean semantics) give %r, the "
                         "implementation prints the mirror's %r: %s" % (case["pastgen"], case["past_line"], text), rep,
                         failing_input=False, stream="past-d/translated")
    if not case["frag"]:
        ctx.skipped_known += 1          # oracle not applied (F15); correspondence with the mirror still is
        return None, diff
    # property oracle: for i >= h, update_i = offline robustness of the original at i-h on the prefix 0..i
    for k, i in enumerate(range(h, n)):
        m = case["m_rho"][k]
        pre = {v: case["data"][v][:i + 1] for v in case["data"]}
        off = impl.eval_offline_discrete(text, case["decl"], pre, i + 1, **offline_kw(case))
        if off[0] != "ok":
            return Violation("offline evaluate() of the original raised %r on a prefix: %s%s" % (off[1:], text, config_text(case)), rep,
                             stream=case["stream"]), diff
        want = off[1][i - h][1]
        if m[0] == "undef":
            ctx.skipped_undef += 1
            continue
        if not common.num_eq(outs[i], want):
            rep2 = dict(rep, step=i, offline_prefix_value=want)
            return Violation("update() #%d of the pastified monitor returns %r; offline robustness of the original at sample %d "
                             "on the %d samples seen so far is %r (hor=%d): %s%s" % (i, outs[i], i - h, i + 1, want, h, text, config_text(case)),
                             rep2, stream=case["stream"]), diff
        if m[0] == "ok" and not common.num_eq(want, m[1][i - h]):
            return Violation("offline evaluate() of the original differs from rho on a prefix (see C01): %s%s" % (text, config_text(case)), rep,
                             stream=case["stream"]), diff
    return None, diff


def has_next(f):
    return any(x[0] == "t1" and x[1] in ("next", "snext") for x in F.subformulas(f))


def gen_case(rng, configured=False):
    """`configured`: the stream `next-configured` - a specification with next / s_next, monitored in a configuration other than
    the plain one (default unit, place of set_sampling_period; see gen_config).  One case in four of the main stream is
    configured as well, whatever its operators."""
    g = F.Gen(rng, VARS, ALLOW, max_bound=rng.choice([1, 2, 3, 4]))
    r = rng.random()
    if r < 0.12 and not configured:
        g = F.Gen(rng, VARS, F.PAST_ONLY, max_bound=4)
        stream = "future-free"
    else:
        stream = "bounded-future"
    f = g.formula(rng.choice([1, 2, 2, 3, 3, 4, 5]))
    cfg = None
    if configured:
        stream = "next-configured"
        for _ in range(12):
            if has_next(f):
                break
            f = g.formula(rng.choice([2, 3, 3, 4]))
        if not has_next(f):
            f = ("b", rng.choice(["and", "or"]), ("t1", rng.choice(["next", "snext"]), g.formula(1)), f)
        cfg = gen_config(rng)
    elif rng.random() < 0.25:
        cfg = gen_config(rng)
    n = rng.randint(1, 14)
    vs = F.variables(f) or ["a"]
    return {"stream": stream, "f": f, "n": n, "data": F.gen_trace(rng, vs, n), "decl": vs, "cfg": cfg}


def explore(ctx, rng, count, configured=False):
    cases = [gen_case(rng, configured) for _ in range(count)]
    model(cases)
    for c in cases:
        ctx.evaluations += 1
        ctx.count("stream:" + c["stream"])
        if c.get("cfg"):
            ctx.count("configured:unit=%s" % c["cfg"]["unit"])
            ctx.count("configured:period-set:" + c["cfg"]["order"])
            if has_next(c["f"]):
                ctx.count("configured:with-next" + ("/period-set-after-pastify" if c["cfg"]["order"] == "after-pastify" else ""))
        ctx.count("in-fragment" if c["frag"] else "outside-fragment(F15)")
        ctx.count("hor=%d" % c["hor"] if c["hor"] < 8 else "hor>=8")
        v, d = check_case(ctx, c)
        if v is None and d is None:
            ctx.traces_validated += 1
            if len(ctx.samples) < 4 and c["hor"] >= 2 and c["frag"]:
                ctx.sample({"spec": "out = " + F.to_text(c["f"]), "pastified": F.to_name(c["past"]), "horizon": c["hor"],
                            "data": c["data"]})
        if v is not None:
            scratch = Ctx(ctx.id, ctx.tier, ctx.seed)

            def fails(cc):
                model([cc])
                return cc["frag"] and check_case(scratch, cc)[0] is not None
            # a run that ends in a time-out or in MemoryError is not shrunk (every attempt would take as long)
            heavy = "Timeout" in v.what or "MemoryError" in v.what
            c2 = c if heavy else disc.shrink_case(c, fails, budget=80)
            model([c2])
            v2 = check_case(scratch, c2)[0] if c2["frag"] and not heavy else None
            ctx.violations.append(v2 or v)
            if len(ctx.violations) >= 3:
                return
        if d is not None:
            ctx.diffs.append(d)


def case_of_replay(obj):
    f = F.from_proto(obj["formula"])
    return {"stream": "replay", "f": f, "n": obj["n"], "data": {k: [float(x) for x in v] for k, v in obj["data"].items()},
            "decl": F.variables(f) or ["a"], "cfg": dict(obj["config"]) if obj.get("config") else None}


def replay(ctx, obj):
    if obj.get("kind") == "modular":
        from .. import modular as M
        c = M.case_of_rep(obj)
        h = obj["horizon"]
        got = M.run_discrete(c, "past", modular=True)
        if got[0] != "ok":
            return False, "pastified modular specification raised %r" % (got[1:],)
        text = "out = " + F.to_text(c["f"], bound=M.bound_fn(c))
        for i in range(h, c["n"]):
            pre = {v: c["data"][v][:i + 1] for v in c["vars"]}
            off = impl.eval_offline_discrete(text, c["vars"], pre, i + 1)
            if off[0] == "ok" and off[1][i - h][1] == off[1][i - h][1] and not common.num_eq(got[1][0][i], off[1][i - h][1]):
                return False, "update #%d of the pastified modular specification differs from the delayed offline robustness" % i
        return True, "pastified modular specification agrees with the delayed original"
    c = case_of_replay(obj)
    model([c])
    if obj.get("expect") == "known-F15":
        # witness of the known finding: checked with the oracle even though it is outside the fragment
        c["frag"] = True
    v, d = check_case(Ctx(ctx.id, ctx.tier, ctx.seed), c)
    if v is not None:
        return False, v.what
    return True, "pastified monitor agrees with the delayed original on the replayed case"


MOD_ALLOW = {"arith", "cmp", "bool", "past", "bpast", "bfuture", "buntil", "bsince", "since", "not"}


def modular_stream(ctx, rng, count):
    """The same property for specifications written with named sub-specifications (several assertions in one text or
    add_sub_spec), bounds with or without explicit units: pastify() works on nodes that are shared between the assertions.
    Oracle: for i >= hor, update #i of the pastified modular monitor = offline robustness of the inlined formula at i - hor."""
    from .. import modular as M
    cases = []
    for _ in range(count):
        c = M.gen_case(rng, MOD_ALLOW, "past", with_consts=False)
        cases.append(c)
    outs = common.driver_run([l for c in cases for l in ("past | " + F.to_proto(c["f"]), "frag | frag | " + F.to_proto(c["f"]))])
    for k, c in enumerate(cases):
        p, fr = outs[2 * k], outs[2 * k + 1].strip() == "1"
        ctx.evaluations += 1
        ctx.count("stream:modular")
        if not p.startswith("ok ") or not fr:
            ctx.skipped_known += 1
            continue
        h = int(p[3:].split("|", 1)[0].strip())
        got = M.run_discrete(c, "past", modular=True)
        rep = dict(M.rep_of(c), kind="modular", horizon=h, impl=got)
        if got[0] != "ok":
            ctx.violations.append(Violation("pastified modular specification raised %r: %s" % (got[1:], rep["spec"].replace("\n", " ")), rep,
                                            stream="past-d/modular"))
            return
        res = got[1][0]
        text = "out = " + F.to_text(c["f"], bound=M.bound_fn(c))
        n = c["n"]
        bad = None
        for i in range(h, n):
            pre = {v: c["data"][v][:i + 1] for v in c["vars"]}
            off = impl.eval_offline_discrete(text, c["vars"], pre, i + 1)
            if off[0] != "ok":
                break
            want = off[1][i - h][1]
            if want != want or res[i] != res[i]:
                continue
            if not common.num_eq(res[i], want):
                bad = (i, res[i], want)
                break
        if bad:
            ctx.violations.append(Violation("update() #%d of the pastified modular specification returns %r; offline robustness of the "
                                            "inlined formula at sample %d is %r (hor=%d): %s" % (bad[0], bad[1], bad[0] - h, bad[2], h,
                                                                                             rep["spec"].replace("\n", " ")), rep, stream="past-d/modular"))
            if len(ctx.violations) >= 3:
                return
        else:
            ctx.traces_validated += 1


def run(ctx):
    for obj in disc.corpus("C03"):
        ok, msg = replay(ctx, obj)
        ctx.evaluations += 1
        ctx.count("stream:corpus")
        if not ok:
            ctx.violations.append(Violation("corpus case fails: " + msg, obj, stream="corpus"))
    if not ctx.violations:
        explore(ctx, ctx.subrng("past-d"), ctx.budget(900, 8000))
    if not ctx.violations:
        explore(ctx, ctx.subrng("next-configured"), ctx.budget(90, 800), configured=True)
    if not ctx.violations:
        modular_stream(ctx, ctx.subrng("modular"), ctx.budget(300, 2500))


def search(ctx):
    explore(ctx, ctx.subrng("search"), ctx.budget(1200, 5000))
    if not ctx.violations:
        explore(ctx, ctx.subrng("search-next-configured"), ctx.budget(150, 800), configured=True)
