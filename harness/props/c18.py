"""C18 — temporal dualities and expansion laws hold in every monitor.

Tie: metamorphic stream `laws`: both sides of each law are evaluated by the *same* real
monitor on the same trace and must give identical signals; operands are random formulas.
Monitors: discrete offline (all laws), discrete online (the past laws), dense offline and
dense online (laws without since/until expansion) — the dense ones through harness/dense.py.
Stream `laws-decimal`: the law instances that write a bound, on the discrete monitors with a decimal sampling period
(0.1 s, 0.05 ms, 100 ms, ...) and every bound written as a decimal duration with a unit.
"""
from decimal import Decimal
from fractions import Fraction

from .. import common, formula as F, impl, disc
from ..engine import Violation, Ctx

RULE = ("for each law instance: operands p,q = random formulas (depth<=3), random bounds a<=b, c<=d in 0..4, trace length "
        "1..12 (discrete) / piecewise-constant signals with unaligned break-points (dense); both sides evaluated by the same "
        "monitor. distinct by (law, lhs text, data, monitor); non-trivial when the common signal is not constant +-inf. "
        "laws-decimal (60 / 500 groups of instances): same instances with bounds 0..4 periods written as exact decimal durations in a "
        "random unit, sampling period drawn from decimal fractions and multiples of s/ms/us/ns, trace length 3..14, monitors "
        "offline / online / pastified; failing traces are shrunk.")
EXPLANATION = ("theorems: the nine laws as equalities of rho for all operands, bounds and traces (C18_not_ev_bounded, "
               "C18_not_once_bounded, C18_not_once, C18_not_ev, C18_implies, C18_ev_ev, C18_once_once, C18_since_expansion, "
               "C18_until_expansion), transferred to the discrete offline and online monitors (C18_offline, C18_online). "
               "Correspondence: metamorphic, lhs vs rhs on the real monitors.")
ASSUMPTIONS = ["bounded linear order (no NaN)", "dense time: validated by the metamorphic stream; theorems are discrete-time"]

VARS = ["a", "b", "c"]

# ---- stream `laws-decimal`: the same laws when the sampling period is a decimal fraction (0.1 s, 0.05 ms, ...) and the bounds are
# written as decimal durations with units.  The formulas keep their bounds as whole numbers of sampling periods (so a+c and b+d
# are exact); only the rendering differs: bound k is written as the exact decimal text of k * period in some unit.
NS = {"s": 10 ** 9, "ms": 10 ** 6, "us": 10 ** 3, "ns": 1}
UNITS = ["s", "ms", "us", "ns"]
DEC_PERIODS = ["0.1", "0.1", "0.2", "0.05", "0.01", "0.001", "0.3", "0.7", "1.1", "2.5", "0.5", "0.25", "100", "10", "1"]


def dec(q):
    """Exact decimal text (no exponent) of a Fraction whose denominator divides a power of ten."""
    q = Fraction(q)
    s = format(Decimal(q.numerator) / Decimal(q.denominator), "f")
    if Fraction(Decimal(s)) != q:
        raise common.HarnessError("not a finite decimal: %s" % q)
    return s


def period_ns(cfg):
    return Fraction(Decimal(cfg["period"])) * NS[cfg["punit"]]


def gen_sampling(rng):
    """{"period": decimal text, "punit", "unit" (default unit of the specification), "bunit" (unit the bounds are written in),
    "suffix" (the unit is written after every bound; it may be left out only when it is the default unit)}.  Only periods that are
    a whole number of ns and that set_sampling_period() receives exactly (the double nearest to the decimal text, times the
    ns of its unit, is the period in ns) - the configurations in which every rendered bound is a multiple of the period."""
    while True:
        period, punit = rng.choice(DEC_PERIODS), rng.choice(UNITS)
        pns = Fraction(Decimal(period)) * NS[punit]
        if pns.denominator != 1 or pns <= 0:
            continue
        per = int(Decimal(period)) if Decimal(period) == int(Decimal(period)) else float(period)
        if Fraction(per * NS[punit]) != pns:
            continue
        unit = punit if rng.random() < 0.5 else rng.choice(UNITS)
        bunit = rng.choice([unit, punit, rng.choice(UNITS)])
        return {"period": period, "punit": punit, "unit": unit, "bunit": bunit,
                "suffix": True if bunit != unit else rng.random() < 0.5}


def bound_text(cfg):
    pns, u = period_ns(cfg), cfg["bunit"]
    return lambda k: dec(k * pns / NS[u]) + (u if cfg["suffix"] or u != cfg["unit"] else "")


def sampling_kw(cfg, n):
    p = Decimal(cfg["period"])
    per = int(p) if p == int(p) else float(p)
    pns = period_ns(cfg)
    # time stamps: sample i at i periods, in the default unit of the specification
    return dict(unit=cfg["unit"], sampling=(per, cfg["punit"]), time=[float(i * pns / NS[cfg["unit"]]) for i in range(n)])


def laws(rng, g, past):
    """yield (name, lhs, rhs)"""
    d = rng.choice([0, 1, 2, 3])
    p, q = g.formula(d), g.formula(d)
    if rng.random() < 0.3:
        # the operand contains an unbounded temporal operator of its own (state that the operators of a law share with the
        # operators inside their operand must not leak)
        inner = ("t1", rng.choice(["once", "hist"] if past else ["once", "hist", "ev", "alw"]), g.formula(rng.choice([0, 1])))
        p = inner if rng.random() < 0.4 else ("b", rng.choice(["and", "or"]), inner, g.formula(rng.choice([0, 1])))
    if not past and rng.random() < 0.15:
        # operands that read ONE variable directly (no predicate: the operand of the temporal operator is the caller's list),
        # one of them under a bounded future operator whose window reaches beyond a short trace
        x = ("v", rng.choice(g.vars[:2]) if hasattr(g, "vars") else "a")
        a0 = rng.randint(0, 2)
        w1 = ("tb1", rng.choice(["ev", "alw"]), a0, a0 + rng.randint(2, 6), x)
        w2 = rng.choice([("t1", rng.choice(["alw", "ev"]), x), x, ("tb1", rng.choice(["ev", "alw"]), 0, rng.randint(1, 6), x)] +
                        ([("t1", "next", x)] if g.__class__.__name__ == "Gen" else []))       # (no `next` in dense time)
        p, q = (w1, w2) if rng.random() < 0.5 else (w2, w1)
    a, b = g.bounds()
    c, dd = g.bounds()
    out = []
    if not past:
        out.append(("not-ev[a,b]", ("u", "not", ("tb1", "ev", a, b, p)), ("tb1", "alw", a, b, ("u", "not", p))))
        out.append(("not-ev", ("u", "not", ("t1", "ev", p)), ("t1", "alw", ("u", "not", p))))
        out.append(("ev-ev", ("tb1", "ev", a, b, ("tb1", "ev", c, dd, p)), ("tb1", "ev", a + c, b + dd, p)))
        out.append(("until-expansion", ("t2", "until", p, q),
                    ("b", "or", q, ("b", "and", p, ("t1", "snext", ("t2", "until", p, q))))))
    out.append(("not-once[a,b]", ("u", "not", ("tb1", "once", a, b, p)), ("tb1", "hist", a, b, ("u", "not", p))))
    out.append(("not-once", ("u", "not", ("t1", "once", p)), ("t1", "hist", ("u", "not", p))))
    out.append(("implies", ("b", "implies", p, q), ("b", "or", ("u", "not", p), q)))
    out.append(("once-once", ("tb1", "once", a, b, ("tb1", "once", c, dd, p)), ("tb1", "once", a + c, b + dd, p)))
    out.append(("since-expansion", ("t2", "since", p, q),
                ("b", "or", q, ("b", "and", p, ("t1", "sprev", ("t2", "since", p, q))))))
    return out


def side_text(f, cfg=None):
    return "out = " + (F.to_text(f, bound_text(cfg)) if cfg else F.to_text(f))


def eval_side(monitor, f, data, n, hist=None, cfg=None):
    text = side_text(f, cfg)
    vs = sorted(data)
    kw = sampling_kw(cfg, n) if cfg else {}
    if monitor == "offd":
        o = impl.eval_offline_discrete(text, vs, data, n, **kw)
        return o if o[0] != "ok" else ("ok", [p[1] for p in o[1]])
    if monitor == "past":
        return impl.run_online_discrete(text, vs, data, n, pastify=True, **kw)
    if cfg:
        return impl.run_online_discrete(text, vs, data, n, **kw)
    if monitor == "ond-reset" and hist:
        # the monitor object is reused: a history, reset(), then the trace
        def go():
            spec = impl.make_spec("ond", text, vs)
            spec.parse()
            k = len(next(iter(hist.values())))
            for i in range(k):
                spec.update(i, [(v, hist[v][i]) for v in vs])
            spec.reset()
            return [spec.update(i, [(v, data[v][i]) for v in vs]) for i in range(n)]
        return impl.guarded(go)
    return impl.run_online_discrete(text, vs, data, n)


def check_instance(ctx, monitor, name, lhs, rhs, data, n, hist=None, cfg=None):
    l = eval_side(monitor, lhs, data, n, hist, cfg)
    r = eval_side(monitor, rhs, data, n, hist, cfg)
    rep = {"history": hist, "law": name, "monitor": monitor, "lhs": side_text(lhs, cfg), "rhs": side_text(rhs, cfg),
           "lhs_proto": F.to_proto(lhs), "rhs_proto": F.to_proto(rhs), "data": data, "n": n, "impl_lhs": l, "impl_rhs": r}
    stream = "laws"
    if cfg:
        # bounds in the protos are numbers of sampling periods; the texts are what the monitors were given
        rep["sampling"] = cfg
        stream = "laws-decimal"
    if l[0] != "ok" or r[0] != "ok":
        return Violation("law %s on %s: evaluation raised %r / %r" % (name, monitor, l[1:] if l[0] != "ok" else "ok",
                                                                      r[1:] if r[0] != "ok" else "ok"), rep, stream=stream)
    if disc.nontrivial(l[1]):
        ctx.nontrivial.add((name, monitor, rep["lhs"], tuple((k, tuple(v)) for k, v in sorted(data.items()))))
    if any(x != x for x in l[1]) or any(x != x for x in r[1]):
        ctx.skipped_undef += 1
        return None
    if not common.same_nums(l[1], r[1]):
        i = next((j for j in range(min(len(l[1]), len(r[1]))) if not common.num_eq(l[1][j], r[1][j])), min(len(l[1]), len(r[1])))
        return Violation("law %s fails on the %s monitor at sample %d: lhs %r, rhs %r (%s)" %
                         (name, monitor, i, l[1][i] if i < len(l[1]) else None, r[1][i] if i < len(r[1]) else None, rep["lhs"]), rep, stream=stream)
    return None


def explore(ctx, rng, count):
    for _ in range(count):
        monitor = rng.choice(["offd", "offd", "ond", "ond-reset", "past"])
        past = monitor != "offd"
        allow = F.PAST_ONLY - {"fn", "iffxor"} if past else F.ALL_DISCRETE_OFFLINE - {"fn", "iffxor"}
        g = F.Gen(rng, VARS, allow, max_bound=rng.choice([1, 2, 3, 4]))
        n = rng.choice([1, 2, 3]) if rng.random() < 0.2 else rng.randint(2, 12)
        for name, lhs, rhs in laws(rng, g, past):
            if monitor == "past":
                # both sides next to the same bounded-future sibling, monitored after pastify(): the two pastified monitors are
                # delayed by the same horizon and must return the same values
                k_ = rng.randint(1, 3)
                sib = ("tb1", rng.choice(["ev", "alw"]), rng.randint(0, 1), k_ + 1, g.formula(0))
                op_ = rng.choice(["and", "or", "implies"])
                if rng.random() < 0.5:
                    lhs, rhs = ("b", op_, lhs, sib), ("b", op_, rhs, sib)
                else:
                    lhs, rhs = ("b", op_, sib, lhs), ("b", op_, sib, rhs)
            vs = sorted(set(F.variables(lhs)) | set(F.variables(rhs))) or ["a"]
            data = F.gen_trace(rng, vs, n)
            hist = F.gen_trace(rng, vs, rng.randint(1, 5)) if monitor == "ond-reset" else None
            ctx.evaluations += 1
            ctx.count("law:%s/%s" % (name, monitor))
            v = check_instance(ctx, monitor, name, lhs, rhs, data, n, hist)
            if v is None:
                ctx.traces_validated += 1
                if len(ctx.samples) < 4 and F.depth(lhs) >= 3:
                    ctx.sample({"law": name, "monitor": monitor, "lhs": "out = " + F.to_text(lhs), "rhs": "out = " + F.to_text(rhs),
                                "data": data})
            else:
                ctx.violations.append(v)
                if len(ctx.violations) >= 3:
                    return


def shrink_trace(fails, data, n, budget=40):
    """Greedy: drop the last / first sample, then zero values, while the instance still fails.  `fails(data, n)` -> bool."""
    steps, improved = 0, True
    while improved and steps < budget:
        improved = False
        for cut in ("last", "first"):
            if n > 1:
                d2 = {k: (v[:-1] if cut == "last" else v[1:]) for k, v in data.items()}
                steps += 1
                if fails(d2, n - 1):
                    data, n, improved = d2, n - 1, True
                    break
    for k in sorted(data):
        for i in range(n):
            if data[k][i] != 0.0 and steps < budget:
                d2 = {kk: list(vv) for kk, vv in data.items()}
                d2[k][i] = 0.0
                steps += 1
                if fails(d2, n):
                    data = d2
    return data, n


def explore_decimal(ctx, rng, count):
    """Stream `laws-decimal`: the law instances of `laws` on the discrete monitors when the sampling period is a decimal fraction
    (or a multiple) of a unit and every bound is written as a decimal duration with a unit: eventually[0.1s,0.2s] eventually[0s,0.2s] p
    against eventually[0.1s,0.4s] p at a period of 0.1 s.  The bounds of the two sides are the same whole numbers of periods as in the
    stream `laws` (the sums are formed on them), so both sides denote the formulas the law names."""
    for _ in range(count):
        monitor = rng.choice(["offd", "offd", "ond", "past"])
        past = monitor != "offd"
        allow = F.PAST_ONLY - {"fn", "iffxor"} if past else F.ALL_DISCRETE_OFFLINE - {"fn", "iffxor"}
        g = F.Gen(rng, VARS, allow, max_bound=rng.choice([2, 3, 4]))
        n = rng.randint(3, 14)
        cfg = gen_sampling(rng)
        ctx.count("sampling:%s%s" % (cfg["period"], cfg["punit"]))
        for name, lhs, rhs in laws(rng, g, past):
            if monitor == "past":
                sib = ("tb1", rng.choice(["ev", "alw"]), rng.randint(0, 1), rng.randint(2, 4), g.formula(0))
                op_ = rng.choice(["and", "or", "implies"])
                if rng.random() < 0.5:
                    lhs, rhs = ("b", op_, lhs, sib), ("b", op_, rhs, sib)
                else:
                    lhs, rhs = ("b", op_, sib, lhs), ("b", op_, sib, rhs)
            if not any(x[0] in ("tb1", "tb2") for x in F.subformulas(lhs)):
                continue            # no bound is written in this instance: it belongs to the stream `laws`
            vs = sorted(set(F.variables(lhs)) | set(F.variables(rhs))) or ["a"]
            data = F.gen_trace(rng, vs, n)
            ctx.evaluations += 1
            ctx.count("law-decimal:%s/%s" % (name, monitor))
            v = check_instance(ctx, monitor, name, lhs, rhs, data, n, None, cfg)
            if v is None:
                ctx.traces_validated += 1
                if sum(1 for s_ in ctx.samples if "sampling" in s_) < 2:
                    ctx.sample({"law": name, "monitor": monitor, "lhs": side_text(lhs, cfg), "rhs": side_text(rhs, cfg),
                                "sampling": cfg, "data": data}, limit=8)
            else:
                def fails(d2, n2):
                    return check_instance(Ctx(ctx.id, ctx.tier, ctx.seed), monitor, name, lhs, rhs, d2, n2, None, cfg) is not None
                d2, n2 = shrink_trace(fails, data, n)
                ctx.violations.append(check_instance(Ctx(ctx.id, ctx.tier, ctx.seed), monitor, name, lhs, rhs, d2, n2, None, cfg) or v)
                if len(ctx.violations) >= 3:
                    return


def replay(ctx, obj):
    if obj.get("monitor") in ("offc", "onc"):
        from .. import dense
        return dense.replay_law(ctx, obj)
    lhs, rhs = F.from_proto(obj["lhs_proto"]), F.from_proto(obj["rhs_proto"])
    data = {k: [float(x) for x in v] for k, v in obj["data"].items()}
    hist = {k: [float(x) for x in v_] for k, v_ in obj["history"].items()} if obj.get("history") else None
    v = check_instance(Ctx(ctx.id, ctx.tier, ctx.seed), obj["monitor"], obj["law"], lhs, rhs, data, obj["n"], hist, obj.get("sampling"))
    return (v is None), (v.what if v else "both sides agree on the replayed case")


def run(ctx):
    explore(ctx, ctx.subrng("laws"), ctx.budget(300, 3000))
    if not ctx.violations:
        explore_decimal(ctx, ctx.subrng("laws-decimal"), ctx.budget(60, 500))
    if not ctx.violations:
        try:
            from .. import dense
            dense.law_stream(ctx)
            if not ctx.violations:
                dense.window_law_stream(ctx)
        except ImportError:
            ctx.notes.append("dense-time law stream not available yet")


def search(ctx):
    explore(ctx, ctx.subrng("search"), ctx.budget(400, 2500))
    if not ctx.violations:
        explore_decimal(ctx, ctx.subrng("search-decimal"), ctx.budget(150, 800))
