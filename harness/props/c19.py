"""C19 — dense-time and discrete-time interpretations agree on sampled step signals.

Tie: stream `grid`.  A specification of the fragment (arithmetic, comparisons, Boolean operators, once and
historically bounded or not, bounded eventually and always; bounds multiples of the period P) and a step
signal changing only at multiples of P are given to both *real* interpretations:
   dense offline  evaluate(['x', [[0,v0],[P,v1],…]])           read at the sampling instants k*P
   discrete offline evaluate({'time':[0,1,…],'x':[v0,v1,…]})   (period P, bounds written as durations)
and must agree at every k with k + horizon < n.  Both are also compared with the two models
(rho at k, rhoD at k*P), which ties the theorem C19_sampled to the code.

Sub-stream `grid/reuse`: ONE dense-time and ONE discrete-time specification object of the same modular specification (named
sub-specifications: several assertions, as text or through add_sub_spec) are put through the same sequence of evaluate()
calls on a batch of 2-3 independent grid signals.  Some of the earlier signals carry one sample on which a later assertion
divides by zero: evaluate() raises there (in both interpretations), the driver of the batch goes on with the next signal.
For every well-formed signal of the batch the same comparison as in `grid` is made (dense at k*P = discrete at k for
k + horizon < n, the discrete values also against rho of the inlined formula); the signals that raise are not judged.
"""
from fractions import Fraction
from .. import common, formula as F, impl, disc, dense as D
from ..engine import Violation, Ctx

RULE = ("formulas of the C19 fragment (depth<=4, bounds 0..6 periods), P in {1, 0.25, 0.5} time units, traces of horizon+2..horizon+12 samples over "
        "dyadic values (random, piecewise monotone runs after extreme samples, two-valued), 1-3 variables; compared at all k with k+hor<n; a sub-stream `grid/reuse` (one dense and one discrete "
        "specification object with 1-3 named sub-specifications evaluating 2-3 grid signals in a row, earlier signals possibly raising from a division by 0 in a later assertion). distinct by (spec, P, data); non-trivial when some settled "
        "value is finite or the settled values are not constant.")
EXPLANATION = ("theorem C19_sampled: for grid-aligned bounds and grid step signals rhoD at k*P equals rho at sample k whenever "
               "k + hor < n (Lean, via the step-function theory of RtamtProofs/Dense/Step.lean). Correspondence: the two real "
               "monitors against each other and against both models.")
ASSUMPTIONS = ["signals start at time 0 (finding F37 otherwise)"]
ALLOW = {"arith", "cmp", "bool", "iffxor", "not", "past_c", "bpast", "bfuture"}
REGIONS = {}


def gen_values(rng, n):
    """Sample values: random, or piecewise monotone runs / plateaus (the sliding-window algorithms of the dense monitors keep
    monotone candidate lists: runs of 3 and more descending or ascending samples after an extreme one exercise their eviction)."""
    mode = rng.choice(["random", "random", "runs", "runs", "few"])
    vals = (-3.0, -2.0, -1.0, -0.5, 0.0, 0.5, 1.0, 2.0, 3.0, 4.0)
    if mode == "random":
        return [rng.choice(vals) for _ in range(n)]
    if mode == "few":
        a, b = rng.choice(vals), rng.choice(vals)
        return [rng.choice([a, b]) for _ in range(n)]
    out = []
    while len(out) < n:
        k = rng.randint(1, 5)
        start = rng.choice(vals)
        step = rng.choice([-1.0, -0.5, 0.0, 0.5, 1.0])
        if out and rng.random() < 0.5:
            out.append(rng.choice([-4.0, 5.0]))      # an extreme sample before the run
        out.extend(start + step * i for i in range(k))
    return out[:n]


def gen_formula(rng):
    g = D.DGen(rng, D.VARS, ALLOW, max_bound=rng.choice([1, 2, 4, 6]))
    if rng.random() < 0.12:
        # variables used directly as formulas, one of them under `not` / unary minus / abs, and read again by another operator
        # (a visitor that hands back or changes the list of its operand shows only then)
        x = ("v", rng.choice(D.VARS[:2]))
        u = ("u", rng.choice(["not", "not", "negate", "abs"]), x)
        a = rng.randint(0, 2)
        other = rng.choice([("tb1", rng.choice(["once", "hist", "ev", "alw"]), a, a + rng.randint(0, 3), x), ("t1", rng.choice(["once", "hist"]), x), x,
                            ("b", "ge", x, ("c", rng.choice([0.0, 1.0])))])
        op = rng.choice(["and", "or", "implies"])
        return ("b", op, u, other) if rng.random() < 0.6 else ("b", op, other, u)
    if rng.random() < 0.4:
        # one bounded temporal operator (window width up to 6 periods) over a shallow operand, possibly under one more operator
        a = rng.randint(0, 3)
        b = a + rng.randint(0, 6)
        inner = g.formula(rng.choice([0, 0, 1]))
        f = ("tb1", rng.choice(["ev", "alw", "once", "hist"]), a, b, inner)
        k = rng.random()
        if k < 0.2:
            f = ("u", "not", f)
        elif k < 0.4:
            f = ("b", rng.choice(["and", "or"]), f, g.formula(1))
        elif k < 0.5:
            a2 = rng.randint(0, 2)
            f = ("tb1", rng.choice(["ev", "alw", "once", "hist"]), a2, a2 + rng.randint(0, 3), f)
        return f
    return g.formula(rng.choice([1, 2, 3, 4]))


def gen_cases(rng, count):
    fs = [gen_formula(rng) for _ in range(count)]
    hs = [int(o[3:].split("|")[0]) for o in common.driver_run(["past | " + F.to_proto(f) for f in fs])]
    out = []
    for f, h in zip(fs, hs):
        P = rng.choice([Fraction(1), Fraction(1, 4), Fraction(1, 2)])
        n = min(h, 12) + rng.randint(2, 12)
        vs = F.variables(f) or ["x"]
        useed = rng.randint(0, 10 ** 6) if rng.random() < 0.25 and any(x[0] in ("tb1", "tb2") for x in F.subformulas(f)) else None
        out.append({"f": f, "P": P, "n": n, "h": h, "data": {v: gen_values(rng, n) for v in vs}, "vars": vs, "units_seed": useed})
    for c, o in zip(out, common.driver_run([disc.proto_case("rhot", c["f"], c["data"], c["n"]) for c in out])):
        c["m_rho"] = disc.parse_model(o)
    return out


def bound_txt(P):
    def bt(k):
        q = Fraction(k) * P
        return ("%d" % q) if q.denominator == 1 else repr(float(q))
    return bt


def check_case(ctx, c):
    f, P, n, data, vs = c["f"], c["P"], c["n"], c["data"], c["vars"]
    text = "out = " + F.to_text(f, bound=bound_txt(P))
    if c.get("units_seed") is not None:
        # the same durations with explicit units on either / both bounds (default unit s: the time stamps are seconds)
        import random
        from . import c08
        text = c08.render(random.Random(c["units_seed"]), f, "s", int(P * 10 ** 9), [])
        ctx.count("unit-spellings")
    sig = {v: [(P * k, data[v][k]) for k in range(n)] for v in vs}
    # dense offline
    _, dn = D.eval_offline(f, sig, text=text)
    # discrete offline with sampling period P
    per_ms = int(P * 1000)
    dsc = impl.eval_offline_discrete(text, vs, data, n, sampling=(per_ms, "ms", 0.1))
    h = c["h"] if "h" in c else int(common.driver_run(["past | " + F.to_proto(f)])[0][3:].split("|")[0])
    rep = {"units_seed": c.get("units_seed"), "spec": text, "formula": F.to_proto(f), "P": str(P), "n": n, "data": data, "horizon": h, "impl_dense": dn, "impl_discrete": dsc}
    if dn[0] != "ok" or dsc[0] != "ok":
        return Violation("evaluation raised: dense %r, discrete %r: %s" % (dn[:2], dsc[:2], text), rep, stream="grid")
    dense_samples = D.samples_of(dn[1])
    dv = [p[1] for p in dsc[1]]
    settled = [k for k in range(n) if k + h < n]
    for k in settled:
        a = D.step_value(dense_samples, P * k)
        b = dv[k]
        if a is None:
            return Violation("the dense-time result has no value at the sampling instant t=%s (sample %d, horizon %d, n=%d), the "
                             "discrete-time robustness there is %r: %s" % (P * k, k, h, n, b, text), rep, stream="grid")
        if a != a or b != b:
            continue
        if not common.num_eq(a, b):
            return Violation("at the sampling instant t=%s (sample %d, horizon %d, n=%d) the dense-time robustness is %r and the "
                             "discrete-time robustness is %r: %s" % (P * k, k, h, n, a, b, text), rep, stream="grid")
    # models
    m_rho = c["m_rho"] if "m_rho" in c else disc.parse_model(common.driver_run([disc.proto_case("rhot", f, data, n)])[0])
    if m_rho[0] == "ok":
        for k in settled:
            if not common.num_eq(dv[k], m_rho[1][k]):
                return Violation("discrete robustness at %d is %r, rho is %r: %s" % (k, dv[k], m_rho[1][k], text), rep, stream="grid")
    if settled and (any(dv[k] not in (common.INF, -common.INF) for k in settled) or len({dv[k] for k in settled}) > 1):
        ctx.nontrivial.add((text, str(P), tuple((v, tuple(data[v])) for v in vs)))
    return None


def explore(ctx, rng, count):
    for c in gen_cases(rng, count):
        ctx.evaluations += 1
        ctx.count("P=%s" % c["P"])
        v = check_case(ctx, c)
        if v is None:
            ctx.traces_validated += 1
            if len(ctx.samples) < 3 and F.depth(c["f"]) >= 3:
                ctx.sample({"spec": "out = " + F.to_text(c["f"], bound=bound_txt(c["P"])), "P": str(c["P"]), "data": c["data"]})
        else:
            ctx.violations.append(v)
            if len(ctx.violations) >= 3:
                return


# ---------------------------------------------------------------------------------------------------------------------------
# grid/reuse: one dense and one discrete specification object, named sub-specifications, several grid signals in a row
# ---------------------------------------------------------------------------------------------------------------------------
DIV_GOOD = (-2.0, -1.0, -0.5, 0.5, 1.0, 2.0, 4.0)      # divisors of the well-formed signals (quotients of dyadic values are exact)


def is_term(f, env):
    """The body is an arithmetic expression (not a formula); names are looked up in `env`."""
    if f[0] == "v":
        return is_term(env[f[1]], env) if f[1] in env else True
    return f[0] == "c" or (f[0] == "u" and f[1] != "not") or (f[0] == "b" and f[1] in F.ARITH)


def gen_reuse_case(rng):
    """A modular specification of the C19 fragment `p0 = ..; [p1 = ..;] out = ..` in which an assertion after the first one
    compares a quotient `t / v` with a constant, and a batch of grid signals for one object of it per interpretation: the
    divisor v is never 0 in the well-formed signals and 0 at one sample of the others (no robustness is defined there: those
    signals are not judged).  -> case without horizon (`finish_reuse_cases` adds it)."""
    from .. import modular as M
    g = D.DGen(rng, D.VARS, ALLOW, max_bound=rng.choice([1, 2, 4]))
    f = g.formula(2)
    for _ in range(20):
        f = gen_formula(rng) if rng.random() < 0.5 else g.formula(rng.choice([2, 2, 3]))
        if 4 <= F.size(f) <= 30 and F.variables(f):
            break
    defs = M.add_repeats(rng, M.decompose(rng, f, prob=0.5, limit=3))
    if len(defs) == 1:
        other = g.formula(rng.choice([0, 1]))
        ref = rng.choice([("v", "p0"), ("u", "not", ("v", "p0"))])
        defs = [("p0", f), ("out", ("b", rng.choice(["and", "or", "implies"]), ref, other) if rng.random() < 0.6
                        else ("b", rng.choice(["and", "or", "implies"]), other, ref))]
    pv = rng.choice(D.VARS[:2])
    num = rng.choice([("c", 1.0), ("c", 1.0), ("c", 2.0), ("v", rng.choice([v for v in D.VARS if v != pv]))])
    guard = ("b", rng.choice(["le", "ge", "lt", "gt"]), ("b", "div", num, ("v", pv)), ("c", rng.choice([0.5, 1.0, 2.0, 3.0])))
    # never the first assertion (a named sub-specification is evaluated before the one that raises), and an assertion that
    # names a formula
    k = rng.choice([i for i in range(1, len(defs)) if not is_term(defs[i][1], dict(defs))] or [len(defs) - 1])
    nm, body = defs[k]
    op = rng.choice(["and", "or", "implies"])
    defs = defs[:k] + [(nm, ("b", op, body, guard) if rng.random() < 0.6 else ("b", op, guard, body))] + defs[k + 1:]
    inl = M.inline(defs)
    return {"defs": defs, "inl": inl, "f": inl["out"], "vars": sorted(F.variables(inl["out"])), "pv": pv,
            "P": rng.choice([Fraction(1), Fraction(1, 4), Fraction(1, 2)]), "style": rng.choice(["text", "text", "sub_spec"]),
            "glitch": list(rng.choice([(1, 0), (1, 0), (1, 0), (0, 1, 0), (1, 0, 0), (1, 1, 0), (0, 0), (0, 0, 0)]))}   # 1 = a signal that raises


def finish_reuse_cases(rng, cases):
    """Horizon of the inlined formula (one driver call for all cases), then the signals of every batch."""
    hs = [int(o[3:].split("|")[0]) for o in common.driver_run(["past | " + F.to_proto(c["f"]) for c in cases])] if cases else []
    for c, h in zip(cases, hs):
        c["h"] = h
        c["traces"] = []
        for glitch in c["glitch"]:
            n = min(h, 12) + rng.randint(2, 12)
            data = {v: gen_values(rng, n) for v in c["vars"]}
            data[c["pv"]] = [rng.choice(DIV_GOOD) for _ in range(n)]
            if glitch:
                data[c["pv"]][rng.randrange(n)] = 0.0
            c["traces"].append(data)
        c["stream"] = "grid/reuse" + ("/after-exception" if any(c["glitch"]) else "")
    return cases


def reuse_lines(c):
    bt = bound_txt(c["P"])
    return ["%s = %s;" % (nm, F.to_text(b, bound=bt)) for nm, b in c["defs"]]


def run_reuse(c):
    """One dense-time and one discrete-time specification object; one evaluate() per signal on each, in the order given; an
    exception of one evaluation is recorded and the batch goes on.  Every result is copied when it is returned.
    -> ('ok', ([dense outcome per signal], [discrete outcome per signal])) | outcome of building the objects."""
    import copy
    from ..impl import RTAMTException
    lines, names, vs, P = reuse_lines(c), [nm for nm, _ in c["defs"][:-1]], c["vars"], c["P"]

    def build(kind, **kw):
        if c["style"] == "text":
            spec = impl.make_spec(kind, "\n".join(lines), vs, extra_decl=names, **kw)
        else:
            spec = impl.make_spec(kind, lines[-1], vs, extra_decl=names, sub_specs=lines[:-1], **kw)
        spec.parse()
        return spec

    def attempt(call):
        try:
            return ("ok", copy.deepcopy(call()))
        except (impl.CaseTimeout, common.HarnessError):
            raise
        except RTAMTException as e:
            return ("rtamt", str(e))
        except Exception as e:  # noqa: BLE001
            return ("other", type(e).__name__, str(e)[:200])

    def go():
        dense, discrete = build("offc"), build("offd", sampling=(int(P * 1000), "ms", 0.1))
        dn, dsc = [], []
        for data in c["traces"]:
            n = len(data[vs[0]])
            dn.append(attempt(lambda: dense.evaluate(*[[v, D.py_sig([(P * k, data[v][k]) for k in range(n)])] for v in vs])))
            ds = {"time": list(range(n))}
            ds.update({v: list(data[v]) for v in vs})
            dsc.append(attempt(lambda: discrete.evaluate(ds)))
        return dn, dsc
    return impl.guarded(go)


def reuse_rep(c, j, dn, dsc):
    data = c["traces"][j]
    return {"spec": " ".join(reuse_lines(c)), "formula": F.to_proto(c["f"]), "P": str(c["P"]), "n": len(data[c["vars"][0]]), "data": data,
            "horizon": c["h"], "impl_dense": dn, "impl_discrete": dsc,
            "reuse": {"defs": [[nm, F.to_proto(b)] for nm, b in c["defs"]], "style": c["style"], "pv": c["pv"], "traces": c["traces"],
                      "glitch": c["glitch"], "judged": j}}


def check_reuse(ctx, cases, models=True):
    """-> [(case, index of the judged signal, Violation | None)] for every well-formed signal of every batch: the comparison of
    `check_case` (dense at k*P against discrete at k for k + horizon < n; discrete against rho of the inlined formula)."""
    res, pend = [], []
    for c in cases:
        outs = run_reuse(c)
        P, h, vs = c["P"], c["h"], c["vars"]
        text = " ".join(reuse_lines(c))
        if outs[0] != "ok":           # the objects could not be built / parsed
            res.append((c, 0, Violation("building the specification objects raised %r: %s" % (outs[1:], text), reuse_rep(c, 0, outs, outs), stream=c["stream"])))
            continue
        for j, (data, glitch, dn, dsc) in enumerate(zip(c["traces"], c["glitch"], outs[1][0], outs[1][1])):
            if glitch:                # a division by 0: no robustness is defined, nothing is claimed
                ctx.count("reuse:signal-raises" if dn[0] != "ok" and dsc[0] != "ok" else "reuse:glitch-signal-evaluates")
                continue
            n = len(data[vs[0]])
            rep = reuse_rep(c, j, dn, dsc)
            rep["reuse"]["outcomes_before"] = [[a[0], b[0]] for a, b in zip(outs[1][0][:j], outs[1][1][:j])]
            where = "%s   [signal %d of %d on one specification object per interpretation%s]" % (
                text, j + 1, len(c["traces"]), ", after an evaluation that raised" if any(o[0] != "ok" for o in outs[1][0][:j] + outs[1][1][:j]) else "")
            v = None
            if dn[0] != "ok" or dsc[0] != "ok":
                v = Violation("evaluation raised: dense %r, discrete %r: %s" % (dn[:2], dsc[:2], where), rep, stream=c["stream"])
                res.append((c, j, v))
                continue
            dense_samples = D.samples_of(dn[1])
            dv = [p[1] for p in dsc[1]]
            settled = [k for k in range(n) if k + h < n]
            for k in settled:
                a, b = D.step_value(dense_samples, P * k), dv[k]
                if a is None:
                    v = Violation("the dense-time result has no value at the sampling instant t=%s (sample %d, horizon %d, n=%d), the "
                                  "discrete-time robustness there is %r: %s" % (P * k, k, h, n, b, where), rep, stream=c["stream"])
                    break
                if a != a or b != b:
                    continue
                if not common.num_eq(a, b):
                    v = Violation("at the sampling instant t=%s (sample %d, horizon %d, n=%d) the dense-time robustness is %r and the "
                                  "discrete-time robustness is %r: %s" % (P * k, k, h, n, a, b, where), rep, stream=c["stream"])
                    break
            res.append((c, j, v))
            if v is None:
                pend.append((len(res) - 1, dv, settled, n, data, where, rep))
    if models and pend:
        outs = common.driver_run([disc.proto_case("rhot", res[i][0]["f"], data, n) for i, _, _, n, data, _, _ in pend])
        for (i, dv, settled, n, data, where, rep), o in zip(pend, outs):
            m_rho = disc.parse_model(o)
            c = res[i][0]
            if m_rho[0] == "ok":
                for k in settled:
                    if not common.num_eq(dv[k], m_rho[1][k]):
                        res[i] = (c, res[i][1], Violation("discrete robustness at %d is %r, rho is %r: %s" % (k, dv[k], m_rho[1][k], where), rep, stream=c["stream"]))
                        break
            if res[i][2] is None and settled and (any(dv[k] not in (common.INF, -common.INF) for k in settled) or len({dv[k] for k in settled}) > 1):
                ctx.nontrivial.add((where, str(c["P"]), tuple((v, tuple(data[v])) for v in c["vars"])))
    return res


def shrink_reuse(ctx, case, j):
    """Smaller batch that still fails on its last signal: drop the signals after the judged one, then signals before it, then the
    last samples of every signal (the horizon stays)."""
    def fails(c):
        try:
            r = check_reuse(Ctx(ctx.id, ctx.tier, ctx.seed), [c], models=False)
        except common.HarnessError:
            return None
        r = [v for (_, jj, v) in r if jj == len(c["traces"]) - 1 and isinstance(v, Violation)]
        return r[0] if r else None
    cur = dict(case, traces=case["traces"][:j + 1], glitch=case["glitch"][:j + 1])
    best = fails(cur)
    if best is None:
        return None
    budget = 24
    i = 0
    while i < len(cur["traces"]) - 1 and budget > 0:
        cand = dict(cur, traces=cur["traces"][:i] + cur["traces"][i + 1:], glitch=cur["glitch"][:i] + cur["glitch"][i + 1:])
        budget -= 1
        v = fails(cand)
        if v is not None:
            cur, best = cand, v
        else:
            i += 1
    for ti in range(len(cur["traces"])):
        while budget > 0:
            tr = cur["traces"][ti]
            n = len(tr[cur["vars"][0]])
            if n <= cur["h"] + 1 or (cur["glitch"][ti] and 0.0 not in tr[cur["pv"]][:n - 1]):
                break
            cand = dict(cur, traces=cur["traces"][:ti] + [{v: tr[v][:n - 1] for v in tr}] + cur["traces"][ti + 1:])
            budget -= 1
            v = fails(cand)
            if v is None:
                break
            cur, best = cand, v
    return best


def explore_reuse(ctx, rng, count):
    cases = finish_reuse_cases(rng, [gen_reuse_case(rng) for _ in range(count)])
    for c in cases:
        ctx.count("reuse:batches")
        ctx.count("reuse:subspecs=%d" % (len(c["defs"]) - 1))
        ctx.count("reuse:style=" + c["style"])
    for c, j, v in check_reuse(ctx, cases):
        ctx.evaluations += 1
        ctx.count("stream:" + c["stream"])
        ctx.count("P=%s" % c["P"])
        if v is None:
            ctx.traces_validated += 1
        else:
            ctx.violations.append(shrink_reuse(ctx, c, j) or v)
            if len(ctx.violations) >= 3:
                return


def replay_reuse(ctx, obj):
    from .. import modular as M
    r = obj["reuse"]
    defs = [(nm, F.from_proto(b)) for nm, b in r["defs"]]
    inl = M.inline(defs)
    traces = [{k: [float(x) for x in v] for k, v in t.items()} for t in r["traces"]]
    case = {"defs": defs, "inl": inl, "f": inl["out"], "vars": sorted(F.variables(inl["out"])), "pv": r["pv"], "P": Fraction(obj["P"]),
            "style": r["style"], "traces": traces, "glitch": r["glitch"], "stream": "replay",
            "h": int(common.driver_run(["past | " + F.to_proto(inl["out"])])[0][3:].split("|")[0])}
    bad = [v for (_, j, v) in check_reuse(Ctx(ctx.id, ctx.tier, ctx.seed), [case]) if isinstance(v, Violation) and j == r["judged"]]
    return (not bad), (bad[0].what if bad else "on every well-formed signal of the batch the dense and the discrete specification object agree")


def replay(ctx, obj):
    if obj.get("reuse"):
        return replay_reuse(ctx, obj)
    f = F.from_proto(obj["formula"])
    c = {"f": f, "P": Fraction(obj["P"]), "n": obj["n"], "data": {k: [float(x) for x in v] for k, v in obj["data"].items()},
         "vars": F.variables(f) or ["x"], "units_seed": obj.get("units_seed")}
    v = check_case(Ctx(ctx.id, ctx.tier, ctx.seed), c)
    return (v is None), (v.what if v else "dense and discrete interpretations agree on the replayed case")


def run(ctx):
    explore(ctx, ctx.subrng("grid"), ctx.budget(3000, 20000))
    if len(ctx.violations) < 3:
        explore_reuse(ctx, ctx.subrng("grid/reuse"), ctx.budget(100, 1500))


def search(ctx):
    explore(ctx, ctx.subrng("search"), ctx.budget(3000, 15000))
    if len(ctx.violations) < 3:
        explore_reuse(ctx, ctx.subrng("search/reuse"), ctx.budget(300, 1500))
