"""C19 — dense-time and discrete-time interpretations agree on sampled step signals.

Tie: stream `grid`.  A specification of the fragment (arithmetic, comparisons, Boolean operators, once and
historically bounded or not, bounded eventually and always; bounds multiples of the period P) and a step
signal changing only at multiples of P are given to both *real* interpretations:
   dense offline  evaluate(['x', [[0,v0],[P,v1],…]])           read at the sampling instants k*P
   discrete offline evaluate({'time':[0,1,…],'x':[v0,v1,…]})   (period P, bounds written as durations)
and must agree at every k with k + horizon < n.  Both are also compared with the two models
(rho at k, rhoD at k*P), which ties the theorem C19_sampled to the code.
"""
from fractions import Fraction
from .. import common, formula as F, impl, disc, dense as D
from ..engine import Violation, Ctx

RULE = ("formulas of the C19 fragment (depth<=4, bounds 0..6 periods), P in {1, 0.25, 0.5} time units, traces of horizon+2..horizon+12 samples over "
        "dyadic values (random, piecewise monotone runs after extreme samples, two-valued), 1-3 variables; compared at all k with k+hor<n. distinct by (spec, P, data); non-trivial when some settled "
        "value is finite or the settled values are not constant.")
EXPLANATION = ("theorem C19_sampled: for grid-aligned bounds and grid step signals rhoD at k*P equals rho at sample k whenever "
               "k + hor < n (Lean, via the step-function theory of RtamtProofs/Dense/Step.lean). Correspondence: the two real "
               "monitors against each other and against both models.")
ASSUMPTIONS = ["signals start at time 0 (finding F37 otherwise)"]
ALLOW = {"arith", "cmp", "bool", "iffxor", "not", "past_c", "bpast", "bfuture"}
REGIONS = {}


def gen_values(rng, n):
    """Sample values: random, or piecewise monotone runs / plateaus (the sliding-window algorithms of the dense monitors keep
    monotone candidate lists: runs of 3 and more descending or ascending samples after an extreme one exercise their eviction)."""
    mode = rng.choice(["random", "random", "runs", "runs", "few"])
    vals = (-3.0, -2.0, -1.0, -0.5, 0.0, 0.5, 1.0, 2.0, 3.0, 4.0)
    if mode == "random":
        return [rng.choice(vals) for _ in range(n)]
    if mode == "few":
        a, b = rng.choice(vals), rng.choice(vals)
        return [rng.choice([a, b]) for _ in range(n)]
    out = []
    while len(out) < n:
        k = rng.randint(1, 5)
        start = rng.choice(vals)
        step = rng.choice([-1.0, -0.5, 0.0, 0.5, 1.0])
        if out and rng.random() < 0.5:
            out.append(rng.choice([-4.0, 5.0]))      # an extreme sample before the run
        out.extend(start + step * i for i in range(k))
    return out[:n]


def gen_formula(rng):
    g = D.DGen(rng, D.VARS, ALLOW, max_bound=rng.choice([1, 2, 4, 6]))
    if rng.random() < 0.12:
        # variables used directly as formulas, one of them under `not` / unary minus / abs, and read again by another operator
        # (a visitor that hands back or changes the list of its operand shows only then)
        x = ("v", rng.choice(D.VARS[:2]))
        u = ("u", rng.choice(["not", "not", "negate", "abs"]), x)
        a = rng.randint(0, 2)
        other = rng.choice([("tb1", rng.choice(["once", "hist", "ev", "alw"]), a, a + rng.randint(0, 3), x), ("t1", rng.choice(["once", "hist"]), x), x,
                            ("b", "ge", x, ("c", rng.choice([0.0, 1.0])))])
        op = rng.choice(["and", "or", "implies"])
        return ("b", op, u, other) if rng.random() < 0.6 else ("b", op, other, u)
    if rng.random() < 0.4:
        # one bounded temporal operator (window width up to 6 periods) over a shallow operand, possibly under one more operator
        a = rng.randint(0, 3)
        b = a + rng.randint(0, 6)
        inner = g.formula(rng.choice([0, 0, 1]))
        f = ("tb1", rng.choice(["ev", "alw", "once", "hist"]), a, b, inner)
        k = rng.random()
        if k < 0.2:
            f = ("u", "not", f)
        elif k < 0.4:
            f = ("b", rng.choice(["and", "or"]), f, g.formula(1))
        elif k < 0.5:
            a2 = rng.randint(0, 2)
            f = ("tb1", rng.choice(["ev", "alw", "once", "hist"]), a2, a2 + rng.randint(0, 3), f)
        return f
    return g.formula(rng.choice([1, 2, 3, 4]))


def gen_cases(rng, count):
    fs = [gen_formula(rng) for _ in range(count)]
    hs = [int(o[3:].split("|")[0]) for o in common.driver_run(["past | " + F.to_proto(f) for f in fs])]
    out = []
    for f, h in zip(fs, hs):
        P = rng.choice([Fraction(1), Fraction(1, 4), Fraction(1, 2)])
        n = min(h, 12) + rng.randint(2, 12)
        vs = F.variables(f) or ["x"]
        useed = rng.randint(0, 10 ** 6) if rng.random() < 0.25 and any(x[0] in ("tb1", "tb2") for x in F.subformulas(f)) else None
        out.append({"f": f, "P": P, "n": n, "h": h, "data": {v: gen_values(rng, n) for v in vs}, "vars": vs, "units_seed": useed})
    for c, o in zip(out, common.driver_run([disc.proto_case("rhot", c["f"], c["data"], c["n"]) for c in out])):
        c["m_rho"] = disc.parse_model(o)
    return out


def bound_txt(P):
    def bt(k):
        q = Fraction(k) * P
        return ("%d" % q) if q.denominator == 1 else repr(float(q))
    return bt


def check_case(ctx, c):
    f, P, n, data, vs = c["f"], c["P"], c["n"], c["data"], c["vars"]
    text = "out = " + F.to_text(f, bound=bound_txt(P))
    if c.get("units_seed") is not None:
        # the same durations with explicit units on either / both bounds (default unit s: the time stamps are seconds)
        import random
        from . import c08
        text = c08.render(random.Random(c["units_seed"]), f, "s", int(P * 10 ** 9), [])
        ctx.count("unit-spellings")
    sig = {v: [(P * k, data[v][k]) for k in range(n)] for v in vs}
    # dense offline
    _, dn = D.eval_offline(f, sig, text=text)
    # discrete offline with sampling period P
    per_ms = int(P * 1000)
    dsc = impl.eval_offline_discrete(text, vs, data, n, sampling=(per_ms, "ms", 0.1))
    h = c["h"] if "h" in c else int(common.driver_run(["past | " + F.to_proto(f)])[0][3:].split("|")[0])
    rep = {"units_seed": c.get("units_seed"), "spec": text, "formula": F.to_proto(f), "P": str(P), "n": n, "data": data, "horizon": h, "impl_dense": dn, "impl_discrete": dsc}
    if dn[0] != "ok" or dsc[0] != "ok":
        return Violation("evaluation raised: dense %r, discrete %r: %s" % (dn[:2], dsc[:2], text), rep, stream="grid")
    dense_samples = D.samples_of(dn[1])
    dv = [p[1] for p in dsc[1]]
    settled = [k for k in range(n) if k + h < n]
    for k in settled:
        a = D.step_value(dense_samples, P * k)
        b = dv[k]
        if a is None:
            return Violation("the dense-time result has no value at the sampling instant t=%s (sample %d, horizon %d, n=%d), the "
                             "discrete-time robustness there is %r: %s" % (P * k, k, h, n, b, text), rep, stream="grid")
        if a != a or b != b:
            continue
        if not common.num_eq(a, b):
            return Violation("at the sampling instant t=%s (sample %d, horizon %d, n=%d) the dense-time robustness is %r and the "
                             "discrete-time robustness is %r: %s" % (P * k, k, h, n, a, b, text), rep, stream="grid")
    # models
    m_rho = c["m_rho"] if "m_rho" in c else disc.parse_model(common.driver_run([disc.proto_case("rhot", f, data, n)])[0])
    if m_rho[0] == "ok":
        for k in settled:
            if not common.num_eq(dv[k], m_rho[1][k]):
                return Violation("discrete robustness at %d is %r, rho is %r: %s" % (k, dv[k], m_rho[1][k], text), rep, stream="grid")
    if settled and (any(dv[k] not in (common.INF, -common.INF) for k in settled) or len({dv[k] for k in settled}) > 1):
        ctx.nontrivial.add((text, str(P), tuple((v, tuple(data[v])) for v in vs)))
    return None


def explore(ctx, rng, count):
    for c in gen_cases(rng, count):
        ctx.evaluations += 1
        ctx.count("P=%s" % c["P"])
        v = check_case(ctx, c)
        if v is None:
            ctx.traces_validated += 1
            if len(ctx.samples) < 3 and F.depth(c["f"]) >= 3:
                ctx.sample({"spec": "out = " + F.to_text(c["f"], bound=bound_txt(c["P"])), "P": str(c["P"]), "data": c["data"]})
        else:
            ctx.violations.append(v)
            if len(ctx.violations) >= 3:
                return


def replay(ctx, obj):
    f = F.from_proto(obj["formula"])
    c = {"f": f, "P": Fraction(obj["P"]), "n": obj["n"], "data": {k: [float(x) for x in v] for k, v in obj["data"].items()},
         "vars": F.variables(f) or ["x"], "units_seed": obj.get("units_seed")}
    v = check_case(Ctx(ctx.id, ctx.tier, ctx.seed), c)
    return (v is None), (v.what if v else "dense and discrete interpretations agree on the replayed case")


def run(ctx):
    explore(ctx, ctx.subrng("grid"), ctx.budget(3000, 20000))


def search(ctx):
    explore(ctx, ctx.subrng("search"), ctx.budget(3000, 15000))
