"""C13 — sampling_violation_counter counts exactly the out-of-tolerance gaps.

Tie: stream `samp`.  Dyadic time stamps / periods / tolerances (so that the float comparisons of the code
are exact), gaps exactly on both boundaries of the band, periods given in a unit other than the default
unit, n = 1.  For each case:
   implementation  online: update(t_i, …) x n  -> spec.sampling_violation_counter
   implementation  offline: evaluate({'time': ts, …}) on a fresh object -> counter
   model           onlineCounter / offlineCounter (Lean, Rat) and the specification count
   values          the robustness values equal those obtained with perfectly periodic time stamps
"""
from fractions import Fraction
from .. import common, formula as F, impl, disc
from ..engine import Violation, Ctx

RULE = ("random configurations: period in {1,2,4,500,250,...} with unit s/ms/us/ns, default unit s/ms/us/ns, tolerance a dyadic "
        "in [0,1] (incl. 0 and 1), time stamps built from gaps that are dyadic multiples of the period in the time-stamp unit, "
        "incl. gaps exactly P(1-tol), P(1+tol) and just outside; n in 1..12. distinct by (config, time stamps); non-trivial "
        "when the expected count is > 0 and < number of gaps, or a boundary gap occurs.")
EXPLANATION = ("theorems: C13_violates_iff_outside (the code's test after unit conversion = gap outside [P(1-tol),P(1+tol)] with P in "
               "the time-stamp unit), C13_online_counter, C13_offline_counter (= number of such gaps, any length incl. 1), "
               "C13_values_unaffected (outputs independent of the time stamps). Correspondence: counters of the real online and "
               "offline monitors vs the model; values vs periodic time stamps.")
ASSUMPTIONS = ["rationals in the model; the generated numbers are dyadic so that the code's float arithmetic is exact",
               "the time stamps are in the default unit of the specification (spec.unit), as in README examples time_units_1..6"]

UNITS = ["s", "ms", "us", "ns"]
NS = {"s": 10 ** 9, "ms": 10 ** 6, "us": 10 ** 3, "ns": 1}


def frac(x):
    return Fraction(x)


def fs(q):
    q = Fraction(q)
    return "%d/%d" % (q.numerator, q.denominator)


def gen_case(rng):
    unit = rng.choice(UNITS)
    punit = rng.choice(UNITS) if rng.random() < 0.6 else unit
    # period in punit such that the period in `unit` is a dyadic/integer
    ratio = Fraction(NS[punit], NS[unit])            # 1 punit = ratio unit
    dyadic = Fraction(rng.choice([1, 1, 2, 4, 8, 16, 32]), rng.choice([1, 1, 2, 4, 8]))
    if ratio >= 1:
        # period in a coarser unit than the time stamps: P is an integer multiple; `normalize` (= 1/ratio) is not
        # exactly representable, so gaps exactly on the boundary are not generated for this configuration
        period = dyadic if dyadic.denominator == 1 else Fraction(dyadic.numerator)
        exact_boundary = ratio == 1
    else:
        # period in a finer unit: `normalize` is an integer; choose the period so that P is dyadic
        period = dyadic / ratio
        exact_boundary = True
    P = period * ratio                                # period in the unit of the time stamps
    tol = Fraction(rng.choice([0, 1, 1, 2, 4, 8, 16]), 16)
    if rng.random() < 0.25:
        tol = Fraction(1, 10)                         # the default tolerance 0.1 (not dyadic: boundary gaps avoided below)
    n = 1 if rng.random() < 0.1 else rng.randint(2, 12)
    ts, t = [Fraction(rng.choice([0, 0, 3, -2]))], None
    t = ts[0]
    dy = tol.denominator in (1, 2, 4, 8, 16) and exact_boundary
    for _ in range(n - 1):
        k = rng.random()
        if k < 0.08:
            # a step backwards (or no step): time stamps are not assumed to increase; a gap of -P is as far out of tolerance as any
            g = rng.choice([-P, -P, 0, -P * (1 + tol), -P / 2])
        elif k < 0.35:
            g = P
        elif k < 0.5 and dy:
            g = P * (1 - tol)                         # exactly on the lower boundary: inside
        elif k < 0.65 and dy:
            g = P * (1 + tol)                         # exactly on the upper boundary: inside
        elif k < 0.8:
            g = P * (1 + tol) + P / 64                # just outside
        elif k < 0.9:
            g = max(P * (1 - tol) - P / 64, P / 128)  # just outside (or tiny)
        else:
            g = P * rng.choice([Fraction(1, 2), 2, 3, Fraction(3, 4), Fraction(5, 4)])
        t = t + g
        ts.append(t)
    if all(t.denominator == 1 for t in ts) and rng.random() < 0.4:
        # integer time stamps far beyond 2^53 (epoch nanoseconds): the gaps are exact only in integer arithmetic
        off = rng.choice([2 ** 53 + 1, 1695555555123456789, 10 ** 17 + 3])
        ts = [t + off for t in ts]
    g = F.Gen(rng, ["a", "b"], F.PAST_ONLY - {"fn"}, max_bound=0)
    f = g.formula(rng.choice([1, 2]))
    # bounds must be multiples of the sampling period: only unbounded operators (max_bound=0 gives [0,0])
    vs = F.variables(f) or ["a"]
    return {"unit": unit, "punit": punit, "period": period, "tol": tol, "ts": ts, "n": n, "f": f, "data": F.gen_trace(rng, vs, n),
            "decl": vs, "P": P}


def num(q):
    q = Fraction(q)
    return int(q) if q.denominator == 1 else float(q)


def run_impl(case):
    text = "out = " + F.to_text(case["f"])
    vs, data, n = case["decl"], case["data"], case["n"]
    ts = [num(t) for t in case["ts"]]
    per, tol = num(case["period"]), float(case["tol"])

    def go():
        on = impl.make_spec("ond", text, vs, unit=case["unit"], sampling=(per, case["punit"], tol))
        on.parse()
        outs = [on.update(ts[i], [(v, data[v][i]) for v in vs]) for i in range(n)]
        on2 = impl.make_spec("ond", text, vs, unit=case["unit"], sampling=(per, case["punit"], tol))
        on2.parse()
        per_ts = [i * num(case["P"]) for i in range(n)]
        outs2 = [on2.update(per_ts[i], [(v, data[v][i]) for v in vs]) for i in range(n)]
        off = impl.make_spec("offd", text, vs, unit=case["unit"], sampling=(per, case["punit"], tol))
        off.parse()
        ds = {"time": list(ts)}
        ds.update({v: list(data[v]) for v in vs})
        offv = [p[1] for p in off.evaluate(ds)]
        # an object that was used under another sampling configuration (other period unit), then reset and given this one,
        # must count like the fresh one; the offline object likewise (its counter accumulates over evaluate() calls)
        other_unit = [u for u in UNITS if u != case["punit"]][0]
        on3 = impl.make_spec("ond", text, vs, unit=case["unit"], sampling=(3, other_unit, 0.1))
        on3.parse()
        for i in range(min(n, 3)):
            on3.update(i, [(v, data[v][i]) for v in vs])
        on3.reset()
        on3.set_sampling_period(per, case["punit"], tol)
        for i in range(n):
            on3.update(ts[i], [(v, data[v][i]) for v in vs])
        off3 = impl.make_spec("offd", text, vs, unit=case["unit"], sampling=(3, other_unit, 0.1))
        off3.parse()
        off3.evaluate({"time": [0], **{v: [data[v][0]] for v in vs}})
        off3.set_sampling_period(per, case["punit"], tol)
        before = off3.sampling_violation_counter
        off3.evaluate({"time": list(ts), **{v: list(data[v]) for v in vs}})
        return (outs, on.sampling_violation_counter, outs2, on2.sampling_violation_counter, offv, off.sampling_violation_counter,
                on3.sampling_violation_counter, off3.sampling_violation_counter - before)
    return text, impl.guarded(go)


def model(cases):
    lines = ["counter | %s | %s | %s | %s | 0 | %s" % (fs(c["period"]), c["punit"], fs(c["tol"]), c["unit"],
                                                       " ".join(fs(t) for t in c["ts"])) for c in cases]
    res = []
    for o in common.driver_run(lines):
        p = o.split()
        if p[0] != "ok":
            raise common.HarnessError("model counter: " + o)
        res.append(tuple(int(x) for x in p[1:4]))
    return res


def check_case(ctx, case, m):
    text, res = run_impl(case)
    cfg = {"period": str(case["period"]), "period_unit": case["punit"], "unit": case["unit"], "tolerance": str(case["tol"])}
    rep = {"spec": text, "formula": F.to_proto(case["f"]), "config": cfg, "ts": [fs(t) for t in case["ts"]], "n": case["n"],
           "data": case["data"], "model_online_offline_spec": m, "impl": res}
    if res[0] != "ok":
        return Violation("update/evaluate raised %r with sampling config %r" % (res[1:], cfg), rep, stream="samp"), None
    outs, cnt_on, outs_periodic, cnt_periodic, offv, cnt_off, cnt_on3, cnt_off3 = res[1]
    m_on, m_off, m_spec = m
    ngaps = case["n"] - 1
    if 0 < m_spec < ngaps or ngaps == 0:
        ctx.nontrivial.add((tuple(sorted(cfg.items())), tuple(rep["ts"])))
    if cnt_on != m_spec:
        return Violation("online sampling_violation_counter is %r; %d of the %d gaps lie outside [P(1-tol),P(1+tol)] (config %r, "
                         "time stamps %s)" % (cnt_on, m_spec, ngaps, cfg, rep["ts"]), rep, stream="samp/online"), None
    if cnt_off != m_spec:
        return Violation("offline sampling_violation_counter is %r; %d of the %d gaps lie outside the band (config %r, time stamps %s)"
                         % (cnt_off, m_spec, ngaps, cfg, rep["ts"]), rep, stream="samp/offline"), None
    if cnt_on3 != m_spec or cnt_off3 != m_spec:
        return Violation("an object used under another sampling configuration, then reconfigured (%r): online counter %r, offline "
                         "counter %r; %d of the %d gaps lie outside the band (time stamps %s)" % (cfg, cnt_on3, cnt_off3, m_spec, ngaps, rep["ts"]),
                         rep, stream="samp/reconfigured"), None
    if cnt_periodic != 0:
        return Violation("perfectly periodic time stamps are counted as %r violations (config %r)" % (cnt_periodic, cfg), rep,
                         stream="samp/periodic"), None
    if not common.same_vals(outs, outs_periodic) or not common.same_nums(outs, offv):
        return Violation("robustness values depend on the time stamps: %r vs %r vs offline %r" % (outs, outs_periodic, offv), rep,
                         stream="samp/values"), None
    if m_on != m_spec or m_off != m_spec:
        return None, Violation("model counters disagree with their specification (%r)" % (m,), rep, failing_input=False, stream="samp/model")
    return None, None


def explore(ctx, rng, count):
    cases = [gen_case(rng) for _ in range(count)]
    ms = model(cases)
    for c, m in zip(cases, ms):
        ctx.evaluations += 1
        ctx.count("units:%s/%s" % (c["unit"], c["punit"]))
        ctx.count("n=1" if c["n"] == 1 else "n>1")
        v, d = check_case(ctx, c, m)
        if v is None and d is None:
            ctx.traces_validated += 1
            if len(ctx.samples) < 4 and m[2] > 0:
                ctx.sample({"period": str(c["period"]), "period_unit": c["punit"], "unit": c["unit"], "tol": str(c["tol"]),
                            "ts": [str(t) for t in c["ts"]], "violations": m[2]})
        if v is not None:
            ctx.violations.append(v)
            if len(ctx.violations) >= 3:
                return
        if d is not None:
            ctx.diffs.append(d)


def replay(ctx, obj):
    cfg = obj["config"]
    c = {"unit": cfg["unit"], "punit": cfg["period_unit"], "period": Fraction(cfg["period"]), "tol": Fraction(cfg["tolerance"]),
         "ts": [Fraction(t) for t in obj["ts"]], "n": obj["n"], "f": F.from_proto(obj["formula"]),
         "data": {k: [float(x) for x in v] for k, v in obj["data"].items()}}
    c["decl"] = sorted(c["data"])
    c["P"] = c["period"] * Fraction(NS[c["punit"]], NS[c["unit"]])
    m, = model([c])
    v, d = check_case(Ctx(ctx.id, ctx.tier, ctx.seed), c, m)
    return (v is None), (v.what if v else "counters agree with the number of out-of-tolerance gaps")


def run(ctx):
    explore(ctx, ctx.subrng("samp"), ctx.budget(1200, 12000))


def search(ctx):
    explore(ctx, ctx.subrng("search"), ctx.budget(1500, 8000))
