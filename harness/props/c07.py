"""C07 — robustness sign and magnitude are sound w.r.t. Boolean satisfaction.

Tie: the value streams of the real monitors (discrete offline, discrete online, pastified online; dense
through harness/dense.py) against the model's Boolean evaluator `sat` (Lean, Sat.lean):
   value > 0  =>  sat = true          value < 0  =>  sat = false
and for specifications whose predicates compare a variable with a constant: every sample of the trace is
moved by less than |value at t| (random signs and magnitudes, including the extreme corners) and the verdict
at t must not change (the implementation's value must keep its strict sign, the model's sat must be equal).
"""
from .. import common, formula as F, impl, disc
from ..engine import Violation, Ctx

RULE = ("iff/xor-free sorted formulas (predicates over terms; Boolean, event, past, future, bounded operators; depth<=4); "
        "traces of length 1..10 over dyadic values; sign check at every sample and every monitor that supports the formula; "
        "perturbation check for simple-predicate formulas: 4 perturbed traces per (t) with |delta| in {0.5,0.75,0.9375}*|rho| "
        "and random signs / all-plus / all-minus corners. shared-subspec stream: modular texts whose main assertion refers to one named "
        "sub-specification several times at places that need different delays after pastification (next to / under bounded-future "
        "operators, through a second name), pastified online (5 in 6) and offline, verdicts from the inlined formula. "
        "distinct by (spec, data, monitor); non-trivial when some value is finite non-zero.")
EXPLANATION = ("theorems (EReal instance of the model, real signals and constants): C07_pos_sat, C07_neg_unsat (for formulas whose "
               "terms use + - * unary-minus abs), C07_perturb (simple predicates; all samples moved by < |rho| keep the verdict). "
               "Monitors are tied to rho by C01/C02/C03; this check ties their outputs to `sat` directly.")
ASSUMPTIONS = ["real-valued signals and constants; arithmetic restricted to + - * unary minus abs in the theorems"]

VARS = ["a", "b", "c"]
ALLOW_OFF = {"arith", "cmp", "bool", "event", "past", "future", "ufuture", "bpast", "bfuture", "since", "until", "bsince",
             "buntil", "not"}
ALLOW_ON = {"arith", "cmp", "bool", "event", "past", "bpast", "since", "bsince", "not"}
ALLOW_PAST = {"arith", "cmp", "bool", "event", "past", "bpast", "bfuture", "buntil", "bsince", "since", "not", "future"}
SIMPLE_CONSTS = (0.0, 1.0, 2.0, 0.5, 3.0)


def region_past_over_future(case):
    """Outside the fragment on which pastification is correct (asked from the model): finding F15 / F46."""
    if case.get("monitor") != "past":
        return False
    return common.driver_run(["frag | frag | " + F.to_proto(case["f"])])[0].strip() != "1"


REGIONS = {"past-or-event-operator-over-future-subformula": region_past_over_future}


def simple_formula(rng, g, d):
    """Formula whose predicates are `var cmp const` / `const cmp var`."""
    f = g.formula(d)

    def fix(x):
        if x[0] == "b" and x[1] in F.CMP:
            v, c = ("v", rng.choice(VARS)), ("c", rng.choice(SIMPLE_CONSTS))
            return ("b", x[1], v, c) if rng.random() < 0.7 else ("b", x[1], c, v)
        return F.rebuild(x, [fix(k) for k in F.children(x)])
    return fix(f)


def model_sat(cases):
    lines = [disc.proto_case("sat", f, data, n) for (f, data, n) in cases]
    outs = common.driver_run(lines)
    res = []
    for o in outs:
        p = o.split()
        if p[0] != "ok":
            raise common.HarnessError("model sat: " + o)
        res.append([x == "1" for x in p[1:]])
    return res


def scale_bounds(f, k):
    if f[0] == "tb1":
        return ("tb1", f[1], f[2] * k, f[3] * k, scale_bounds(f[4], k))
    if f[0] == "tb2":
        return ("tb2", f[1], f[2] * k, f[3] * k, scale_bounds(f[4], k), scale_bounds(f[5], k))
    return F.rebuild(f, [scale_bounds(c, k) for c in F.children(f)])


def impl_values(monitor, f, data, n, text=None, names=()):
    """`names`: the sub-specifications that `text` defines (declared like variables, as a user of a modular specification does)."""
    text = text or "out = " + F.to_text(f)
    vs = sorted(data)
    kw = {"extra_decl": list(names)} if names else {}
    if monitor == "offd-reconf":
        # the object is reused after a change of the sampling period: bounds in seconds, period 1 s, then 500 ms
        def go():
            spec = impl.make_spec("offd", text, vs, **kw)
            spec.parse()
            ds = {"time": list(range(n))}
            ds.update({v: list(data[v]) for v in vs})
            spec.evaluate(ds)
            spec.set_sampling_period(500, "ms", 0.1)
            return [p[1] for p in spec.evaluate(ds)]
        return text, impl.guarded(go)
    if monitor == "offd":
        o = impl.eval_offline_discrete(text, vs, data, n, **kw)
        return text, (o if o[0] != "ok" else ("ok", [p[1] for p in o[1]]))
    return text, impl.run_online_discrete(text, vs, data, n, pastify=(monitor == "past"), **kw)


def horizon_of(f):
    """Horizon of a bounded-future formula, from the model's pastifier (`past` command: `ok h | pastified formula`)."""
    o = common.driver_run(["past | " + F.to_proto(f)])[0]
    if not o.startswith("ok"):
        raise common.HarnessError("model has no horizon for %s: %s" % (F.to_proto(f), o))
    return int(o[2:].split("|", 1)[0].strip())


def sign_violation(vals, sats):
    for t, (v, s) in enumerate(zip(vals, sats)):
        if v > 0 and not s:
            return t, "positive value %r but the specification is violated" % v
        if v < 0 and s:
            return t, "negative value %r but the specification is satisfied" % v
    return None


def check_case(ctx, monitor, f, data, n, simple, rng, text=None, names=()):
    text, out = impl_values(monitor, f, data, n, text, names)
    rep = {"text": text, "monitor": monitor, "spec": text, "formula": F.to_proto(f), "data": data, "n": n, "impl": out, "simple": simple}
    if names:
        rep["names"] = list(names)
    if out[0] != "ok":
        return Violation("%s raised %r on %s" % (monitor, out[1:], text), rep, stream="sign")
    vals = out[1]
    if any(v != v for v in vals):
        ctx.skipped_undef += 1
        return None
    sats = model_sat([(scale_bounds(f, 2) if monitor == "offd-reconf" else f, data, n)])[0]
    rep["model_sat"] = sats
    if monitor == "past":
        # update #i of the pastified monitor speaks about time i - h (h the horizon); the first h outputs are not verdicts
        h = horizon_of(f)
        rep["horizon"] = h
        if any(v not in (common.INF, -common.INF, 0.0) for v in vals[h:]):
            ctx.nontrivial.add((monitor,) + disc.data_key(text, data))
        sv = sign_violation(vals[h:], sats[:max(n - h, 0)])
        if sv:
            return Violation("pastified online monitor, update %d (time %d): %s: %s" % (sv[0] + h, sv[0], sv[1], text), rep, stream="sign")
        return None
    if any(v not in (common.INF, -common.INF, 0.0) for v in vals):
        ctx.nontrivial.add((monitor,) + disc.data_key(text, data))
    sv = sign_violation(vals, sats)
    if sv:
        return Violation("%s monitor, sample %d: %s: %s" % (monitor, sv[0], sv[1], text), rep, stream="sign")
    if not simple:
        return None
    # perturbation: all samples move by less than |vals[t]|
    ts = [t for t in range(n) if vals[t] not in (0.0,)]
    rng.shuffle(ts)
    for t in ts[:3]:
        mag = abs(vals[t])
        if mag == common.INF:
            mag = 64.0          # any finite perturbation
        for corner in ("rand", "plus", "minus", "rand"):
            k = rng.choice([0.5, 0.75, 0.9375])
            d2 = {}
            for v in data:
                d2[v] = []
                for x in data[v]:
                    sgn = 1.0 if corner == "plus" else -1.0 if corner == "minus" else rng.choice([-1.0, 1.0, 0.0])
                    d2[v].append(x + sgn * k * mag * rng.choice([1.0, 1.0, 0.5]))
            ctx.evaluations += 1
            ctx.count("perturbed")
            _, o2 = impl_values(monitor, f, d2, n, text if names else None, names)
            s2 = model_sat([(f, d2, n)])[0]
            rep2 = dict(rep, t=t, perturbed=d2, impl_perturbed=o2, model_sat_perturbed=s2)
            if o2[0] != "ok":
                return Violation("%s raised %r on a perturbed trace: %s" % (monitor, o2[1:], text), rep2, stream="perturb")
            if s2[t] != sats[t]:
                return Violation("verdict at t=%d changes under a perturbation smaller than |rho|=%r (model sat): %s"
                                 % (t, vals[t], text), rep2, stream="perturb")
            v2 = o2[1][t]
            if (vals[t] > 0 and not v2 > 0) or (vals[t] < 0 and not v2 < 0):
                return Violation("%s monitor: value at t=%d is %r; after moving every sample by less than that, it is %r: %s"
                                 % (monitor, t, vals[t], v2, text), rep2, stream="perturb")
            sv = sign_violation(o2[1], s2)
            if sv:
                return Violation("%s monitor (perturbed trace), sample %d: %s: %s" % (monitor, sv[0], sv[1], text), rep2,
                                 stream="sign")
    return None


def explore(ctx, rng, count):
    for _ in range(count):
        monitor = rng.choice(["offd", "offd", "ond", "past", "past", "offd-reconf"])
        g = F.Gen(rng, VARS, {"ond": ALLOW_ON, "past": ALLOW_PAST}.get(monitor, ALLOW_OFF), max_bound=rng.choice([1, 2, 3, 4]))
        simple = rng.random() < 0.5 and monitor in ("offd", "ond")
        d = rng.choice([1, 2, 3, 4])
        f = simple_formula(rng, g, d) if simple else g.formula(d)
        if monitor == "past" and rng.random() < 0.5:
            # a future-free operand next to a bounded-future one: pastify() has to delay the former by the horizon of the latter
            gp = F.Gen(rng, VARS, ALLOW_ON, max_bound=rng.choice([1, 2, 3]))
            gf = F.Gen(rng, VARS, {"cmp", "bfuture", "buntil", "future", "bool"}, max_bound=rng.choice([1, 2, 3]))
            x, y = gp.formula(rng.choice([1, 2])), gf.formula(rng.choice([1, 2]))
            if rng.random() < 0.6:
                a_ = rng.randint(0, 2)
                x = ("tb2", "since", a_, a_ + rng.randint(0, 2), gp.formula(0), gp.formula(0))
            f = ("b", rng.choice(["and", "or", "implies"]), x, y) if rng.random() < 0.5 else ("b", rng.choice(["and", "or", "implies"]), y, x)
        text = None
        if monitor in ("offd", "past") and rng.random() < 0.15:
            # the sugar `p unless[a,b] q` (the parser expands it to `always[0,b] p or p until[a,b] q`): the sign is judged on the
            # expansion, the monitor gets the sugar
            gu = F.Gen(rng, VARS, {"cmp", "bool", "not"}, max_bound=1)
            p_, q_ = gu.formula(rng.choice([0, 1])), gu.formula(rng.choice([0, 1]))
            a_ = rng.randint(0, 3)
            b_ = a_ + rng.randint(0, 3)
            f = ("b", "or", ("tb1", "alw", 0, b_, p_), ("tb2", "until", a_, b_, p_, q_))
            text = "out = ((%s) unless[%d,%d] (%s))" % (F.to_text(p_), a_, b_, F.to_text(q_))
            simple = False
            ctx.count("unless-sugar")
        n = rng.randint(1, 10)
        bare_case = False
        if monitor == "offd" and text is None and rng.random() < 0.3:
            # a variable used directly as a formula (its robustness is its value: the model reads it as `x >= 0`) under a bounded
            # future operator on a trace shorter than the bound, and read again by another operator
            x = ("v", rng.choice(VARS[:2]))
            px = ("b", "ge", x, ("c", 0.0))
            a_ = rng.randint(0, 2)
            b_ = a_ + rng.randint(1, 4)
            first = ("tb1", rng.choice(["alw", "ev"]), a_, b_, px)
            a2 = rng.randint(0, 2)
            second = rng.choice([("tb1", rng.choice(["alw", "ev"]), a2, a2 + rng.randint(0, 3), px), ("t1", rng.choice(["ev", "alw", "once"]), px), px])
            f = ("b", rng.choice(["and", "or"]), first, second) if rng.random() < 0.7 else ("b", rng.choice(["and", "or"]), second, first)

            def bare(g_):
                if g_ == px:
                    return x
                return F.rebuild(g_, [bare(c_) for c_ in F.children(g_)])
            text = "out = " + F.to_text(bare(f))
            simple = False
            n = rng.randint(1, max(1, b_))
            ctx.count("bare-variable")
            bare_case = True
        data = F.gen_trace(rng, F.variables(f) or ["a"], n)
        if bare_case and rng.random() < 0.6:
            sg = rng.choice([-1.0, 1.0])
            data = {v: [sg * (abs(y) if y != 0 else 1.0) for y in ys] for v, ys in data.items()}
        if disc.known_region(ctx, {"monitor": monitor, "f": f}, REGIONS):
            ctx.skipped_known += 1
            continue
        ctx.evaluations += 1
        ctx.count("monitor:" + monitor)
        ctx.count("simple-preds" if simple else "general-preds")
        v = check_case(ctx, monitor, f, data, n, simple, rng, text)
        if v is None:
            ctx.traces_validated += 1
            if len(ctx.samples) < 3 and F.depth(f) >= 3:
                ctx.sample({"monitor": monitor, "spec": "out = " + F.to_text(f), "data": data})
        else:
            ctx.violations.append(v)
            if len(ctx.violations) >= 3:
                return


def future_reach(f, defs=None):
    """Sum of the upper bounds of the bounded-future operators on the deepest path (through the named sub-specifications `defs`)."""
    if f[0] == "v" and defs and f[1] in defs:
        return future_reach(defs[f[1]], defs)
    sub = max([future_reach(c, defs) for c in F.children(f)] or [0])
    if (f[0] == "tb1" and f[1] in ("ev", "alw")) or (f[0] == "tb2" and f[1] == "until"):
        return f[3] + sub
    return sub


def reference_delays(top, defs):
    """name -> set of the delays that the references to it need in the pastified main assertion `top`.  Pastification delays the
    whole assertion by its horizon H; a bounded-future operator with upper bound b uses up b of what remains for its operands,
    any other operator that reaches r into the future is evaluated r late and hands its operands that r.  What arrives at a
    reference is the delay this occurrence of the name has to be given."""
    rec = {}

    def walk(x, rem):
        if x[0] == "v" and x[1] in defs:
            rec.setdefault(x[1], set()).add(rem)
            walk(defs[x[1]], rem)
        elif (x[0] == "tb1" and x[1] in ("ev", "alw")) or (x[0] == "tb2" and x[1] == "until"):
            for c in F.children(x):
                walk(c, rem - x[3])
        else:
            r = future_reach(x, defs)
            for c in F.children(x):
                walk(c, r)
    walk(top, future_reach(top, defs))
    return rec


def shared_subspec_case(rng):
    """A modular specification whose main assertion refers to ONE named sub-specification several times, at places that need
    different delays after pastification: next to an operand that reaches into the future and under it
    (`p0 and eventually[0,2](not p0)`), under bounded-future operators with different bounds
    (`always[0,1](p0) or eventually[2,3](p0)`), possibly through a second name (`p1 = always[0,1](p0)` next to a direct
    reference of `p0`).  A reference to a name is the node of the named assertion itself, so the main assertion is a graph with a
    shared node: pastify() has to delay every reference by what remains of the horizon at ITS place.  All predicates compare a
    variable with a constant.  Returns (defs ending with ('out', main), names, True iff two references to one name need
    different delays)."""
    gp = F.Gen(rng, VARS, {"cmp", "bool", "not"}, max_bound=2)

    def leaf():
        return simple_formula(rng, gp, rng.choice([0, 0, 0, 1]))

    def interval():
        a = rng.randint(0, 2)
        return a, min(a + rng.randint(0, 2), 3)
    for _ in range(12):
        body = leaf()
        if rng.random() < 0.7:
            # an inequality that about half of the values of `F.gen_trace` satisfy: the truth value of the name changes often
            v, c = ("v", rng.choice(VARS)), ("c", rng.choice([0.0, 0.5, 1.0]))
            body = ("b", rng.choice(["lt", "le", "gt", "ge"]), v, c) if rng.random() < 0.7 else ("b", rng.choice(["lt", "le", "gt", "ge"]), c, v)
        if rng.random() < 0.2:
            a, b = interval()
            body = ("tb1", rng.choice(["once", "hist"]), a, b, body)
        defs, names = [("p0", body)], ["p0"]
        if rng.random() < 0.3:
            a, b = interval()
            inner = ("v", "p0") if rng.random() < 0.6 else ("b", rng.choice(["and", "or"]), ("v", "p0"), leaf())
            defs.append(("p1", ("tb1", rng.choice(["ev", "alw"]), a, b, inner)))
            names.append("p1")

        def use(nm):
            x = ("v", nm)
            if rng.random() < 0.15:
                x = ("u", "not", x)
            for _ in range(rng.choice([0, 1, 1, 1, 2])):
                a, b = interval()
                if rng.random() < 0.8:
                    x = ("tb1", rng.choice(["ev", "alw"]), a, b, x)
                else:
                    y = leaf()
                    x = ("tb2", "until", a, b, x, y) if rng.random() < 0.5 else ("tb2", "until", a, b, y, x)
                if rng.random() < 0.25:
                    x = ("u", "not", x)
            return x
        nm = rng.choice(names)
        uses = [use(nm) for _ in range(rng.choice([2, 2, 2, 3]))]
        if len(names) > 1 and rng.random() < 0.7:
            uses.append(use(names[0]))
        if rng.random() < 0.2:
            uses.append(leaf())
        rng.shuffle(uses)
        top = uses[0]
        for x in uses[1:]:
            op = rng.choice(["and", "or", "implies"])
            top = ("b", op, top, x) if rng.random() < 0.5 else ("b", op, x, top)
        distinct = any(len(ds) > 1 for ds in reference_delays(top, dict(defs)).values())
        if distinct or rng.random() < 0.08:
            break
    return defs + [("out", top)], names, distinct


def shared_stream(ctx, rng, count):
    """Sign (and, offline, perturbation) check on modular specifications with a sub-specification that is referenced several
    times (see `shared_subspec_case`); verdicts from the model's `sat` on the inlined formula."""
    from .. import modular as M
    cases = []
    for _ in range(count):
        monitor = rng.choice(["past", "past", "past", "past", "past", "offd"])
        defs, names, distinct = shared_subspec_case(rng)
        inl = M.inline(defs)
        f = inl["out"]
        text = "\n".join(["%s = %s;" % (nm, F.to_text(b)) for nm, b in defs[:-1]] + ["out = " + F.to_text(defs[-1][1])])
        h = future_reach(f)
        n = h + rng.randint(1, 7) if rng.random() < 0.9 else rng.randint(1, h + 1)
        # (the variables of every assertion are inputs, also those of a name that the main assertion does not reach)
        data = F.gen_trace(rng, sorted({v for g_ in inl.values() for v in F.variables(g_)}) or ["a"], n)
        cases.append((monitor, f, text, names, distinct, n, data))
    # known-finding region (pastification outside the fragment), asked from the model in one batch
    frag = common.driver_run(["frag | frag | " + F.to_proto(c[1]) for c in cases]) if cases else []
    skip_past = any(kf.get("status") == "known" and kf.get("region") in REGIONS for kf in ctx.known)
    for (monitor, f, text, names, distinct, n, data), fr in zip(cases, frag):
        if monitor == "past" and skip_past and fr.strip() != "1":
            ctx.skipped_known += 1
            continue
        ctx.evaluations += 1
        ctx.count("shared-subspec")
        ctx.count("shared-subspec:" + ("references-with-different-delays" if distinct else "references-with-one-delay"))
        ctx.count("monitor:" + monitor)
        ctx.count("simple-preds" if monitor == "offd" else "general-preds")
        v = check_case(ctx, monitor, f, data, n, monitor == "offd", rng, text, names)
        if v is None:
            ctx.traces_validated += 1
            if distinct and monitor == "past" and not ctx.stats.get("shared-subspec:sampled"):
                ctx.count("shared-subspec:sampled")
                ctx.sample({"monitor": monitor, "spec": text, "data": data})
        else:
            v.stream = "shared-subspec/" + (v.stream or "sign")
            ctx.violations.append(v)
            if len(ctx.violations) >= 3:
                return


def replay(ctx, obj):
    if obj.get("monitor") in ("offc", "onc"):
        from .. import dense
        return dense.replay_sign(ctx, obj)
    f = F.from_proto(obj["formula"])
    data = {k: [float(x) for x in v] for k, v in obj["data"].items()}
    scratch = Ctx(ctx.id, ctx.tier, ctx.seed)
    if "perturbed" in obj:
        d2 = {k: [float(x) for x in v] for k, v in obj["perturbed"].items()}
        t = obj["t"]
        names = obj.get("names") or ()
        _, o1 = impl_values(obj["monitor"], f, data, obj["n"], obj.get("text") if names else None, names)
        _, o2 = impl_values(obj["monitor"], f, d2, obj["n"], obj.get("text") if names else None, names)
        s1, s2 = model_sat([(f, data, obj["n"]), (f, d2, obj["n"])])
        if o1[0] != "ok" or o2[0] != "ok":
            return False, "evaluation raised"
        bad = s1[t] != s2[t] or (o1[1][t] > 0) != (o2[1][t] > 0) or (o1[1][t] < 0) != (o2[1][t] < 0) \
            or sign_violation(o2[1], s2) or sign_violation(o1[1], s1)
        return (not bad), ("verdict changes / sign unsound on the replayed perturbation" if bad else "verdict stable")
    v = check_case(scratch, obj["monitor"], f, data, obj["n"], False, scratch.rng, obj.get("text"), obj.get("names") or ())
    return (v is None), (v.what if v else "sign is sound on the replayed case")


def run(ctx):
    explore(ctx, ctx.subrng("sign"), ctx.budget(400, 6000))
    if not ctx.violations:
        shared_stream(ctx, ctx.subrng("shared"), ctx.budget(60, 900))
    if not ctx.violations:
        try:
            from .. import dense
            dense.sign_stream(ctx)
        except ImportError:
            ctx.notes.append("dense-time sign stream not available yet")


def search(ctx):
    explore(ctx, ctx.subrng("search"), ctx.budget(800, 4000))
    if not ctx.violations:
        shared_stream(ctx, ctx.subrng("search-shared"), ctx.budget(200, 1200))
