"""C14 — the parser accepts exactly the specification language and fails only cleanly.

Tie: three streams of specification texts, each handed to the real parse() (ANTLR lexer + parser +
parser visitor) and to the Lean model of the lexer, of the precedence parser and of the visitor's
side conditions (Rtamt/Front/*.lean):
   `valid`   texts rendered from random formulas under random spelling choices (must be accepted);
   `mutant`  one-character / one-token edits of valid texts: deletion, duplication, illegal characters,
             truncation, trailing garbage, swapped characters;
   `soup`    random token sequences.
Oracle (the property): parse() returns or raises RTAMTException — never another exception type, never
hangs; when it accepts, the model (which accepts only texts derivable from the grammar with 0<=begin<=end and
declared bound constants, reading every character) accepts too.  Correspondence: same accept/reject decision,
and on acceptance `spec_print()` equals the names computed from the model's parse tree.
"""
import re
from .. import common, formula as F, front as FR, disc
from ..engine import Violation, Ctx

RULE = ("valid: random formulas (depth<=4) under random aliases/separators/parenthesisation, with or without ';' and assertion head, "
        "intervals with units and declared constants; mutant: 1 edit of a valid text (8 character/token edit kinds; 8 interval edit kinds: identifiers as bounds, swapped bounds, units, radix, reals); soup: 1-12 random tokens. "
        "distinct by text; non-trivial: every text counts once (the observable is the outcome class and the printed AST).")
EXPLANATION = ("theorems (Lean): the lexer and parser are total functions (termination accepted by the kernel); C14_lexStep_skip / "
               "C14_lex_error_propagates (the lexer skips white space and comments only; any other unrecognised character is an error "
               "that reaches the caller); C14_parseExpr_sound / C14_parseAssertion_sound / C14_asserts_consume_all / C14_spec_sound "
               "(a successful parse derives, in the inductive grammar relation `Derives`, exactly the tokens consumed; the assertion "
               "list consumes every token after the declarations and is non-empty); C14_sideconds (accepted intervals satisfy "
               "0<=begin<=end as durations and use declared constants). Correspondence: real parse() vs the model on valid texts, "
               "single-edit mutants and token soup.")
ASSUMPTIONS = ["partial: termination of the real ANTLR parser is only observed up to a wall-clock limit per text",
               "module imports, ROS annotations and typed object variables are not modelled and not generated"]
VARS = ["a", "b", "c"]
REGIONS = {}


def gen_valid(rng):
    g = F.Gen(rng, VARS, F.ALL_DISCRETE_OFFLINE - {"fn"}, max_bound=4)
    f = g.formula(rng.choice([1, 2, 3, 4])) if rng.random() < 0.8 else g.untyped(3)
    st = FR.Style(rng, alias=True, minimal=rng.random() < 0.5, extra_parens=rng.choice([0, 0, 1, 2]))
    consts = []
    units = rng.random() < 0.3

    def bound(k):
        if units:
            u = rng.choice(["s", "ms", ""])
            return {"s": "%d s" % k, "ms": "%dms" % (k * 1000), "": "%d" % k}[u].replace(" ", "")
        if rng.random() < 0.15:
            nm = "K%d" % k
            if (nm, str(k)) not in consts:
                consts.append((nm, str(k)))
            return nm
        return str(k)
    text = FR.spec_text(f, st, head=rng.random() < 0.8, semi=rng.random() < 0.7, bound=bound)
    if rng.random() < 0.15:
        # declarations in the text of variables that are declared through the API as well (declaring a name again is legal)
        decls = []
        for v in rng.sample(VARS, rng.randint(1, len(VARS))):
            decls.append(rng.choice(["float %s", "input float %s", "output float %s", "float %s\nfloat %s"]).replace("%s", v))
        text = "\n".join(decls) + "\n" + text
    if units:
        # mixed-unit renderings may violate begin<=end only if units are mixed on one interval; keep text as is
        pass
    return text, consts


def check_text(ctx, text, consts, stream, m):
    # one text in five goes through the dense-time specification class (same parser visitor, other unit handling)
    kind = "offc" if sum(map(ord, text)) % 5 == 0 else "offd"
    ctx.count("spec-class:" + kind)
    out = FR.impl_parse(text, VARS, consts, kind=kind)
    rep = {"text": text, "consts": consts, "stream": stream, "impl": out, "model": m}
    ctx.nontrivial.add(text)
    if out[0] == "other":
        return Violation("parse() %s on %r" % ("did not terminate within the limit" if out[1] == "Timeout" else
                                                "raised %s (not RTAMTException): %s" % (out[1], out[2]), text), rep, stream=stream), None
    if out[0] == "ok" and m[0] != "ok":
        return Violation("parse() accepts %r, which is not in the language (model: %s)" % (text, m[1]), rep, stream=stream), None
    if out[0] == "rtamt" and m[0] == "ok" and "Ambiguity ERROR" in out[1]:
        # ANTLR reports a prediction ambiguity (a prefix temporal operator followed by a looser binary operator, …) and the
        # error listener of rtamt turns it into an RTAMTException: a clean rejection of a text the grammar derives in two ways
        ctx.count("rejected-as-ambiguous")
        return None, None
    if out[0] == "rtamt" and m[0] == "ok":
        return None, Violation("parse() rejects %r (%s) but the model of the grammar accepts it" % (text, out[1][:80]), rep,
                               failing_input=False, stream=stream + "/model")
    if out[0] == "ok":
        want = FR.expected_print(m[1], consts)
        if out[1] != want:
            return None, Violation("spec_print() of %r is %r, the model's parse tree prints %r" % (text, out[1], want), rep,
                                   failing_input=False, stream=stream + "/print")
    return None, None


IV_RE = re.compile(r"\[([^\[\],:]+)([,:])([^\[\],:]+)\]")


def interval_mutant(rng, text):
    """Edits of one interval: identifiers (signals, undeclared names, constants) as bounds, swapped bounds, units that make
    begin > end as durations, hexadecimal / binary / underscore literals, real-valued bounds."""
    ms = list(IV_RE.finditer(text))
    if not ms:
        return None
    m = rng.choice(ms)
    b, sep, e = m.group(1), m.group(2), m.group(3)
    kind = rng.choice(["ident-begin", "ident-end", "ident-both", "swap", "units", "radix", "real", "empty"])
    ident = lambda: rng.choice(VARS + ["zz", "K1", "out", "always", "s"])  # noqa: E731
    if kind == "ident-begin":
        b = ident()
    elif kind == "ident-end":
        e = ident()
    elif kind == "ident-both":
        b, e = ident(), ident()
    elif kind == "swap":
        b, e = e, b
    elif kind == "units":
        b, e = b + rng.choice(["s", "ms", "us", "ns", ""]), e + rng.choice(["s", "ms", "us", "ns", ""])
    elif kind == "radix":
        b, e = rng.choice(["0x0", "0b1", "0", "0_1"]), rng.choice(["0x3", "0b11", "1_0", "0xg", "0b2"])
    elif kind == "real":
        b, e = rng.choice(["0.0", "1.0", "0.5", "1e0"]), rng.choice(["2.0", "1.5", "3", "1e1"])
    else:
        b = ""
    return text[:m.start()] + "[" + b + sep + e + "]" + text[m.end():], "interval:" + kind


NUM_RE = re.compile(r"(?<![\w.])(\d+)\.0(?![\w.])")


def dotted_variant(rng, text):
    """An identifier with a field: `a.real` / `a.imag` are numbers again (accepted), `a.numerator`, `a.conjugate`, `a..real`,
    `zz.real` (undeclared head) are clean rejections, `a.` is `a`; in an expression or as the name of the assertion."""
    tail = rng.choice([".real", ".imag", ".real.imag", ".", ".numerator", ".conjugate", ".value", "..real", ".real.", ".__class__"])
    if rng.random() < 0.4 and text.startswith("out = "):
        head = rng.choice(["out", "a", "zz", "b"])
        return head + tail + text[3:], "dotted:name" + tail
    ms = list(re.finditer(r"(?<![\w.])([abc]|zz)(?![\w.])", text))
    if not ms:
        return None
    m = rng.choice(ms)
    return text[:m.end()] + tail + text[m.end():], "dotted:expr" + tail


def literal_variant(rng, text):
    """Respell one numeric literal of the text in another notation of the lexer grammar (IntegerLiteral: decimal / 0x / 0X /
    0b / 0B with '_' separators; RealLiteral: digits '.' digits? exponent?, '.' digits, digits exponent), value preserved -
    plus a few malformed spellings."""
    ms = list(NUM_RE.finditer(text))
    if not ms:
        return None
    m = rng.choice(ms)
    k = int(m.group(1))
    good = ["%d" % k, "0x%x" % k, "0X%X" % k, "0x%X" % k, "0b%s" % bin(k)[2:], "0B%s" % bin(k)[2:], "%d." % k, "%d.0e0" % k, "%d.0E+0" % k,
            "%de0" % k, "%dE-0" % k, "%d.00" % k, "0x0_%x" % k, "0B0_%s" % bin(k)[2:]]
    good += ["0x0__%x" % k, "0b0__%s" % bin(k)[2:], "0__%d" % k if k else "0__0", "0__%d.0" % k if k else "0__0.0"]     # runs of separators
    if k >= 10:
        good += ["%d_%d" % (k // 10, k % 10), "%d__%d" % (k // 10, k % 10), "%d___%d.0" % (k // 10, k % 10)]
    if k == 0:
        good += [".0", ".0e1", "0e5"]
    bad = ["0x", "0b", "0b2", "0xg", "%d_" % k, "%de" % k, "%d.e" % k, "0x_1", "1__", "%d..0" % k, "0B", "%dE+" % k]
    sp = rng.choice(good) if rng.random() < 0.8 else rng.choice(bad)
    return text[:m.start()] + sp + text[m.end():], "literal:" + ("good" if sp in good else "bad")


def explore(ctx, rng, count):
    items = []
    for _ in range(count):
        text, consts = gen_valid(rng)
        items.append((text, consts, "valid"))
        lv = literal_variant(rng, text)
        if lv is not None:
            items.append((lv[0], consts, "mutant:" + lv[1]))
        im = interval_mutant(rng, text)
        if im is not None:
            items.append((im[0], consts, "mutant:" + im[1]))
        if rng.random() < 0.4:
            dv = dotted_variant(rng, text)
            if dv is not None:
                items.append((dv[0], consts, "mutant:" + dv[1]))
        for _k in range(2):
            mt, kind = FR.mutate(rng, text)
            items.append((mt, consts, "mutant:" + kind))
        if rng.random() < 0.5:
            items.append((FR.soup(rng), [], "soup"))
        if rng.random() < 0.15:
            # declared constants with non-decimal values, used in expressions and as bounds
            v = rng.choice(["0X1F", "0B11", "0x3", "3", "1_0", "2.5", "1E1", "0x1f", "0b1", "1__0", "0x1__F", "2__0.5"])   # valid literals only: the value comes through the API
            items.append((rng.choice(["out = a >= K9", "out = once[0,K9](a >= 1)", "out = always[K9,K9] (a > K9)"]), [("K9", v)], "const-value"))
    ms = []
    # model calls grouped by constants
    for text, consts, _ in items:
        ms.append(None)
    by = {}
    for i, (text, consts, _) in enumerate(items):
        by.setdefault(tuple(consts), []).append(i)
    for cs, idxs in by.items():
        res = FR.model_parse([items[i][0] for i in idxs], consts=cs)
        for i, r in zip(idxs, res):
            ms[i] = r
    for (text, consts, stream), m in zip(items, ms):
        ctx.evaluations += 1
        ctx.count("stream:" + stream.split(":")[0])
        v, d = check_text(ctx, text, consts, stream, m)
        ctx.count("accepted" if m[0] == "ok" else "rejected")
        if v is None and d is None:
            ctx.traces_validated += 1
            if len(ctx.samples) < 5 and (stream.startswith("mutant") or len(ctx.samples) < 2):
                ctx.sample({"text": text, "stream": stream, "outcome": m[0]})
        if v is not None:
            ctx.violations.append(v)
            if len(ctx.violations) >= 3:
                return
        if d is not None:
            ctx.diffs.append(d)


def replay(ctx, obj):
    consts = [tuple(c) for c in obj.get("consts", [])]
    m, = FR.model_parse([obj["text"]], consts=consts)
    v, d = check_text(Ctx(ctx.id, ctx.tier, ctx.seed), obj["text"], consts, "replay", m)
    return (v is None), (v.what if v else "parse() behaves as the language definition requires on the replayed text")


def run(ctx):
    for obj in disc.corpus("C14"):
        consts = [tuple(c) for c in obj.get("consts", [])]
        m, = FR.model_parse([obj["text"]], consts=consts)
        ctx.evaluations += 1
        ctx.count("stream:corpus")
        v, d = check_text(ctx, obj["text"], consts, "corpus", m)
        if v is not None:
            ctx.violations.append(v)
        if d is not None:
            ctx.diffs.append(d)
    if ctx.violations:
        return
    explore(ctx, ctx.subrng("front"), ctx.budget(1000, 12000))


def search(ctx):
    explore(ctx, ctx.subrng("search"), ctx.budget(3000, 12000))
