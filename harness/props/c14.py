"""C14 — the parser accepts exactly the specification language and fails only cleanly.

Tie: three streams of specification texts, each handed to the real parse() (ANTLR lexer + parser +
parser visitor) and to the Lean model of the lexer, of the precedence parser and of the visitor's
side conditions (Rtamt/Front/*.lean):
   `valid`   texts rendered from random formulas under random spelling choices (must be accepted);
   `mutant`  one-character / one-token edits of valid texts: deletion, duplication, illegal characters,
             truncation, trailing garbage, swapped characters; interval edits; other spellings of a literal; an identifier
             with a field (`a.real`, `a.`, ... - also on a name that is declared nowhere: `zz.` is the float signal zz);
   `soup`    random token sequences.
Four further streams carry constructs the model of the front end does not cover (module imports, `@topic` annotations, the
initial-value expression of a declaration - which the model parses but does not check -, nesting beyond the interpreter's
recursion limit). They are judged by the part of the property that needs no model:
   `import`  `from M import T` lines, variables of the imported type (a class, a module, a string, a function that needs
             arguments, a name the module does not have, a type that was not imported) and their use in the assertion;
   `topic`   `@topic(x, t)` for variables and constants declared through the API or in the text (before / after the annotation)
             and for undeclared names;
   `deep`    1000-3000 nested prefix operators / parentheses / function calls / left-deep operator chains (6 texts in the quick
             tier; the thorough tier adds 400-10000 levels, bounded operators, `and` / `until` chains, right-nested
             implications and thousands of assertions, which take up to a few seconds each);
   `place`   the same expression - well formed, or with an interval edit, a field access, an undeclared bound constant, an
             undeclared identifier - as an assertion `out = E;` (also checked against the model) and as the initial value of a
             declaration `[input|output] float v = E`: parse() must give the same verdict in both places (the language does not
             distinguish where an expression stands), and an undeclared identifier of an accepted text must have become a float
             signal.
Oracle (the property): parse() returns or raises RTAMTException — never another exception type, never
hangs; when it accepts, the model (which accepts only texts derivable from the grammar with 0<=begin<=end and
declared bound constants, reading every character) accepts too.  Correspondence: same accept/reject decision,
and on acceptance `spec_print()` equals the names computed from the model's parse tree.
"""
import re
from .. import common, formula as F, front as FR, disc, impl
from ..engine import Violation, Ctx

RULE = ("valid: random formulas (depth<=4) under random aliases/separators/parenthesisation, with or without ';' and assertion head, "
        "intervals with units and declared constants; mutant: 1 edit of a valid text (8 character/token edit kinds; 8 interval edit kinds: identifiers as bounds, swapped bounds, units, radix, reals); soup: 1-12 random tokens. "
        "model-free streams: import (from M import T + variable of type T), topic (@topic on variables / constants / undeclared names), deep (nesting 1000-3000), "
        "place (one expression as assertion and as initial value of a declaration: same verdict, undeclared identifiers declared). "
        "distinct by text; non-trivial: every text counts once (the observable is the outcome class and the printed AST).")
EXPLANATION = ("theorems (Lean): the lexer and parser are total functions (termination accepted by the kernel); C14_lexStep_skip / "
               "C14_lex_error_propagates (the lexer skips white space and comments only; any other unrecognised character is an error "
               "that reaches the caller); C14_parseExpr_sound / C14_parseAssertion_sound / C14_asserts_consume_all / C14_spec_sound "
               "(a successful parse derives, in the inductive grammar relation `Derives`, exactly the tokens consumed; the assertion "
               "list consumes every token after the declarations and is non-empty); C14_sideconds (accepted intervals satisfy "
               "0<=begin<=end as durations and use declared constants). Correspondence: real parse() vs the model on valid texts, "
               "single-edit mutants and token soup.")
ASSUMPTIONS = ["partial: termination of the real ANTLR parser is only observed up to a wall-clock limit per text",
               "module imports, ROS annotations, typed object variables, the side conditions of a declaration's initial value and the "
               "recursion limit are not modelled: such texts are generated, and judged without the model (parse() returns or raises "
               "RTAMTException; same verdict for an expression as assertion and as initial value; undeclared identifiers of an accepted "
               "text are float signals)"]
VARS = ["a", "b", "c"]
UNDECLARED = ["zz", "x", "y1"]
REGIONS = {}


def gen_valid(rng, bare=False):
    """A valid specification text and the constants it needs; `bare`: the expression alone (no head, no ';', no declarations)."""
    g = F.Gen(rng, VARS, F.ALL_DISCRETE_OFFLINE - {"fn"}, max_bound=4)
    f = g.formula(rng.choice([1, 2, 3, 4])) if rng.random() < 0.8 else g.untyped(3)
    st = FR.Style(rng, alias=True, minimal=rng.random() < 0.5, extra_parens=rng.choice([0, 0, 1, 2]))
    consts = []
    units = rng.random() < 0.3

    def bound(k):
        if units:
            u = rng.choice(["s", "ms", ""])
            return {"s": "%d s" % k, "ms": "%dms" % (k * 1000), "": "%d" % k}[u].replace(" ", "")
        if rng.random() < 0.15:
            nm = "K%d" % k
            if (nm, str(k)) not in consts:
                consts.append((nm, str(k)))
            return nm
        return str(k)
    if bare:
        return FR.spec_text(f, st, head=False, semi=False, bound=bound), consts
    text = FR.spec_text(f, st, head=rng.random() < 0.8, semi=rng.random() < 0.7, bound=bound)
    if rng.random() < 0.15:
        # declarations in the text of variables that are declared through the API as well (declaring a name again is legal)
        decls = []
        for v in rng.sample(VARS, rng.randint(1, len(VARS))):
            decls.append(rng.choice(["float %s", "input float %s", "output float %s", "float %s\nfloat %s"]).replace("%s", v))
        text = "\n".join(decls) + "\n" + text
    if units:
        # mixed-unit renderings may violate begin<=end only if units are mixed on one interval; keep text as is
        pass
    return text, consts


def check_text(ctx, text, consts, stream, m):
    # one text in five goes through the dense-time specification class (same parser visitor, other unit handling)
    kind = "offc" if sum(map(ord, text)) % 5 == 0 else "offd"
    ctx.count("spec-class:" + kind)
    out = FR.impl_parse(text, VARS, consts, kind=kind)
    rep = {"text": text, "consts": consts, "stream": stream, "impl": out, "model": m}
    ctx.nontrivial.add(text)
    if out[0] == "other":
        return Violation("parse() %s on %r" % ("did not terminate within the limit" if out[1] == "Timeout" else
                                                "raised %s (not RTAMTException): %s" % (out[1], out[2]), text), rep, stream=stream), None
    if has_initialiser(text) and not (m[0] == "rtamt" and m[1].startswith("lex")):
        # a declaration with an initial value: the model reads the longest expression after '=' (ANTLR may end it earlier when
        # only that leads to a parse: `float v = a` + assertion `-b > 0`) and does not apply the side conditions to it - neither
        # its acceptance nor its rejection is the language's here; what remains is the model-free part above (and the lexer)
        ctx.count("initialiser:judged-without-model")
        return None, None
    if out[0] == "ok" and m[0] != "ok":
        return Violation("parse() accepts %r, which is not in the language (model: %s)" % (text, m[1]), rep, stream=stream), None
    if out[0] == "rtamt" and m[0] == "ok" and "Ambiguity ERROR" in out[1]:
        # ANTLR reports a prediction ambiguity (a prefix temporal operator followed by a looser binary operator, …) and the
        # error listener of rtamt turns it into an RTAMTException: a clean rejection of a text the grammar derives in two ways
        ctx.count("rejected-as-ambiguous")
        return None, None
    if out[0] == "rtamt" and m[0] == "ok":
        return None, Violation("parse() rejects %r (%s) but the model of the grammar accepts it" % (text, out[1][:80]), rep,
                               failing_input=False, stream=stream + "/model")
    if out[0] == "ok":
        want = FR.expected_print(m[1], consts)
        if out[1] != want:
            return None, Violation("spec_print() of %r is %r, the model's parse tree prints %r" % (text, out[1], want), rep,
                                   failing_input=False, stream=stream + "/print")
    return None, None


INIT_RE = re.compile(r"(\bconst\s+)?\b(?:float|int|long|complex)\s+[A-Za-z_][\w.]*\s*=(?!=)")


def has_initialiser(text):
    """A variable declaration with an initial value (`[input|output] float v = ...`; not `const float k = literal`)."""
    return any(m.group(1) is None for m in INIT_RE.finditer(text))


IV_RE = re.compile(r"\[([^\[\],:]+)([,:])([^\[\],:]+)\]")


def interval_mutant(rng, text):
    """Edits of one interval: identifiers (signals, undeclared names, constants) as bounds, swapped bounds, units that make
    begin > end as durations, hexadecimal / binary / underscore literals, real-valued bounds."""
    ms = list(IV_RE.finditer(text))
    if not ms:
        return None
    m = rng.choice(ms)
    b, sep, e = m.group(1), m.group(2), m.group(3)
    kind = rng.choice(["ident-begin", "ident-end", "ident-both", "swap", "units", "radix", "real", "empty"])
    ident = lambda: rng.choice(VARS + ["zz", "K1", "out", "always", "s"])  # noqa: E731
    if kind == "ident-begin":
        b = ident()
    elif kind == "ident-end":
        e = ident()
    elif kind == "ident-both":
        b, e = ident(), ident()
    elif kind == "swap":
        b, e = e, b
    elif kind == "units":
        b, e = b + rng.choice(["s", "ms", "us", "ns", ""]), e + rng.choice(["s", "ms", "us", "ns", ""])
    elif kind == "radix":
        b, e = rng.choice(["0x0", "0b1", "0", "0_1"]), rng.choice(["0x3", "0b11", "1_0", "0xg", "0b2"])
    elif kind == "real":
        b, e = rng.choice(["0.0", "1.0", "0.5", "1e0"]), rng.choice(["2.0", "1.5", "3", "1e1"])
    else:
        b = ""
    return text[:m.start()] + "[" + b + sep + e + "]" + text[m.end():], "interval:" + kind


NUM_RE = re.compile(r"(?<![\w.])(\d+)\.0(?![\w.])")


def dotted_variant(rng, text):
    """An identifier with a field: `a.real` / `a.imag` are numbers again (accepted), `a.numerator`, `a.conjugate`, `a..real`,
    `zz.real` (undeclared head) are clean rejections, `a.` is `a`; in an expression or as the name of the assertion."""
    tail = rng.choice([".real", ".imag", ".real.imag", ".", ".", ".numerator", ".conjugate", ".value", "..real", ".real.", ".__class__"])
    if rng.random() < 0.4 and text.startswith("out = "):
        head = rng.choice(["out", "a", "zz", "b"])
        return head + tail + text[3:], "dotted:name" + tail
    ms = list(re.finditer(r"(?<![\w.])([abc]|zz)(?![\w.])", text))
    if not ms:
        return None
    m = rng.choice(ms)
    if rng.random() < 0.35:
        # the head is a name that is declared nowhere: `zz.` is the (implicitly declared) float signal zz, `zz.real` a clean rejection
        return text[:m.start()] + rng.choice(UNDECLARED) + tail + text[m.end():], "dotted:undeclared" + tail
    return text[:m.end()] + tail + text[m.end():], "dotted:expr" + tail


def literal_variant(rng, text):
    """Respell one numeric literal of the text in another notation of the lexer grammar (IntegerLiteral: decimal / 0x / 0X /
    0b / 0B with '_' separators; RealLiteral: digits '.' digits? exponent?, '.' digits, digits exponent), value preserved -
    plus a few malformed spellings."""
    ms = list(NUM_RE.finditer(text))
    if not ms:
        return None
    m = rng.choice(ms)
    k = int(m.group(1))
    good = ["%d" % k, "0x%x" % k, "0X%X" % k, "0x%X" % k, "0b%s" % bin(k)[2:], "0B%s" % bin(k)[2:], "%d." % k, "%d.0e0" % k, "%d.0E+0" % k,
            "%de0" % k, "%dE-0" % k, "%d.00" % k, "0x0_%x" % k, "0B0_%s" % bin(k)[2:]]
    good += ["0x0__%x" % k, "0b0__%s" % bin(k)[2:], "0__%d" % k if k else "0__0", "0__%d.0" % k if k else "0__0.0"]     # runs of separators
    if k >= 10:
        good += ["%d_%d" % (k // 10, k % 10), "%d__%d" % (k // 10, k % 10), "%d___%d.0" % (k // 10, k % 10)]
    if k == 0:
        good += [".0", ".0e1", "0e5"]
    bad = ["0x", "0b", "0b2", "0xg", "%d_" % k, "%de" % k, "%d.e" % k, "0x_1", "1__", "%d..0" % k, "0B", "%dE+" % k]
    sp = rng.choice(good) if rng.random() < 0.8 else rng.choice(bad)
    return text[:m.start()] + sp + text[m.end():], "literal:" + ("good" if sp in good else "bad")


# ------------------------------------------------------------------ streams judged without the model
def parse_only(text, consts, kind, watch=()):
    """parse() alone on a fresh specification object (a, b, c and the constants declared through the API).
    ('ok', {identifier of `watch`: is it a float signal now}) | ('rtamt', message) | ('other', type, message)."""
    def go():
        spec = impl.make_spec(kind, text, VARS, consts=[(k, "float", v) for k, v in consts])
        spec.parse()
        ast = spec.ast
        return {w: bool(w in ast.vars and ast.var_type_dict.get(w) == "float" and w in ast.var_object_dict) for w in watch}
    return impl.guarded(go, 20.0, True)


def spec_class(text):
    # one text in five goes through the dense-time specification class (same parser visitor, other unit handling)
    return "offc" if sum(map(ord, text)) % 5 == 0 else "offd"


def shown(text):
    return repr(text) if len(text) <= 200 else "%r... (%d characters)" % (text[:120], len(text))


def check_free(ctx, text, consts, stream, watch=()):
    """The part of the property that needs no model: parse() terminates and returns or raises RTAMTException; an identifier of
    `watch` (declared neither through the API nor by the text) is a float signal after a parse() that returned."""
    kind = spec_class(text)
    ctx.count("spec-class:" + kind)
    out = parse_only(text, consts, kind, watch)
    ctx.nontrivial.add(text)
    rep = {"oracle": "free", "text": text, "consts": consts, "stream": stream, "watch": list(watch), "impl": out}
    if out[0] == "other":
        return out, Violation("parse() %s on %s" % ("did not terminate within the limit" if out[1] == "Timeout" else
                                                    "raised %s (not RTAMTException): %s" % (out[1], out[2]), shown(text)), rep, stream=stream)
    if out[0] == "ok":
        for w in sorted(out[1]):
            if not out[1][w]:
                return out, Violation("parse() accepts %s, but the identifier %s, which is declared nowhere, is neither implicitly declared "
                                      "as a float signal nor rejected" % (shown(text), w), rep, stream=stream)
    return out, None


PLACES = ["float v = %s\nout = (v >= 0);", "input float v = %s\nout = (v >= 0);", "output float v = %s\nout = (v >= 0);",
          "float v = %s\nfloat w\nout = (v >= 0);", "int v = %s\nout = (v >= 0)"]


def check_place(ctx, expr, consts, place, stream, watch=()):
    """One expression as an assertion and as the initial value of a declaration: the same verdict in both places."""
    ta, td = "out = %s;" % expr, place % expr
    oa, va = check_free(ctx, ta, consts, stream, watch)
    if va is not None:
        return va
    od, vd = check_free(ctx, td, consts, stream, watch)
    if vd is not None:
        return vd
    if any(o[0] == "rtamt" and "Ambiguity ERROR" in o[1] for o in (oa, od)):
        ctx.count("rejected-as-ambiguous")          # ANTLR's prediction ambiguity depends on the context of the expression
        return None
    ctx.count("place:" + ("accepted" if oa[0] == "ok" else "rejected"))
    if oa[0] != od[0]:
        rep = {"oracle": "place", "expr": expr, "place": place, "consts": consts, "stream": stream, "watch": list(watch),
               "text": td, "as_assertion": ta, "impl_assertion": oa, "impl_initial_value": od}
        if od[0] == "ok":
            return Violation("parse() accepts %r although it rejects the same expression as an assertion, %r (%s): the initial value of a "
                             "declaration is not held to the language" % (td, ta, oa[1][:90]), rep, stream=stream)
        return Violation("parse() rejects %r (%s) although it accepts the same expression as an assertion, %r" % (td, od[1][:90], ta), rep,
                         stream=stream)
    return None


VAR_RE = re.compile(r"(?<![\w.])([abc])(?![\w.])")


def gen_place(rng):
    """An expression for the `place` stream: a valid one, possibly with one identifier replaced by a name that is declared
    nowhere (`y`), then possibly one fault: an interval edit (swapped bounds, identifiers / undeclared constants as bounds, units,
    ...), or a field access."""
    expr, consts = gen_valid(rng, bare=True)
    watch = []
    if rng.random() < 0.5:
        ms = list(VAR_RE.finditer(expr))
        if ms:
            m = rng.choice(ms)
            expr = expr[:m.start()] + "y" + expr[m.end():]
            watch = ["y"]
    kind = "wellformed"
    r = rng.random()
    if r < 0.45:
        im = interval_mutant(rng, expr)
        if im is not None:
            expr, kind = im
    elif r < 0.65:
        tail = rng.choice([".level", ".real", ".", ".value", ".imag"])
        ms = list(re.finditer(r"(?<![\w.])([abcy])(?![\w.])", expr))
        if ms:
            m = rng.choice(ms)
            expr, kind = expr[:m.end()] + tail + expr[m.end():], "dotted" + tail
    elif r < 0.75:
        expr, kind = rng.choice(["always[5:2] (%s)", "once[0:k] (%s)", "(%s) until[3:1] (a >= 0)", "eventually[zz,4] (%s)",
                                 "historically[2s:500ms] (%s)", "(%s) since[K7:K7] (b <= 1)"]) % expr, "wrapped"
    if "y" in watch and not re.search(r"(?<![\w.])y(?![\w.])", expr):
        watch = []                                  # `y.real` and the like: rejected, or another identifier
    return expr, consts, rng.choice(PLACES), "place:" + kind, watch


IMPORTS = {  # module -> names: a class that can be instantiated, things that cannot, names the module does not have
    "fractions": ["Fraction", "Decimal", "foo", "math", "gcd"],
    "os": ["path", "sep", "getcwd", "nosuch", "getenv"],
    "math": ["pi", "sqrt", "inf", "Pi"],
    "decimal": ["Decimal", "Context", "ROUND_UP", "foo"],
    "collections": ["OrderedDict", "namedtuple", "abc", "Foo"],
    "os.path": ["join", "sep", "bar"],
    "harness.msgs": ["Msg", "Msg2", "foo"],
    "nosuchmodule": ["foo"],
}


def gen_import(rng):
    mod = rng.choice(sorted(IMPORTS))
    typ = rng.choice(IMPORTS[mod])
    lines = ["from %s import %s" % (mod, typ)]
    r = rng.random()
    if r < 0.1:
        lines.append("from %s import %s" % (mod, rng.choice(IMPORTS[mod])))
    elif r < 0.15:
        lines.insert(0, "float b")                       # an import after a declaration: not in the grammar
    var = rng.choice(["x", "x", "m", "a"])
    r = rng.random()
    if r < 0.75:
        lines.append(rng.choice(["%s %s", "%s %s", "input %s %s", "output %s %s"]) % (typ, var))
    elif r < 0.85:
        lines.append("%s %s" % (rng.choice(["Foo", "path", "Fraction"]), var))      # possibly a type that was not imported
    use = rng.choice(["%s > 1", "%s.value > 1", "%s.numerator >= 0", "%s.real > 0", "a > 1", "always[0,2] (%s.value >= a)", "%s. > 0"])
    lines.append("out = " + (use % var if "%s" in use else use))
    return "\n".join(lines), [], "import"


def gen_topic(rng):
    decl = []
    consts = []
    target = rng.choice(["api-var", "text-var", "text-var-later", "text-const", "text-const", "api-const", "undeclared", "assertion"])
    name = {"api-var": "a", "text-var": "v", "text-var-later": "v", "text-const": "k", "api-const": "K9", "undeclared": "zz",
            "assertion": "out"}[target]
    ann = "@topic(%s, %s)" % (name, rng.choice(["foo", "t1", "a", name]))
    if target == "text-var":
        decl = [rng.choice(["float v", "input float v", "output int v"]), ann]
    elif target == "text-var-later":
        decl = [ann, "float v"]
    elif target == "text-const":
        decl = ["const %s k = %s" % (rng.choice(["float", "int"]), rng.choice(["1", "2", "0.5"])), ann]
    else:
        decl = [ann]
        if target == "api-const":
            consts = [("K9", rng.choice(["1", "2"]))]
    if rng.random() < 0.3:
        decl.insert(rng.randrange(len(decl) + 1), rng.choice(["float w", "@topic(b, tb)", "const int j = 3"]))
    body = rng.choice(["x > %s", "a >= %s", "always[0,2] (a > %s)", "%s <= b", "once[0:%s] (a > 0)"])
    val = name if target in ("text-const", "api-const", "text-var", "text-var-later", "api-var") else "1"
    if "[0:" in body and target not in ("text-const", "api-const"):
        val = "1"
    watch = ["x"] if body.startswith("x ") else []
    return "\n".join(decl + ["out = " + body % val]), consts, "topic:" + target, watch


DEEP = {
    "not": lambda n: "out = " + "not " * n + "a",
    "bang": lambda n: "out = " + "!" * n + "(a > 0)",
    "paren": lambda n: "out = " + "(" * n + "a" + ")" * n,
    "neg": lambda n: "out = " + "- " * n + "a > 0",
    "always": lambda n: "out = " + "always " * n + "(a > 0)",
    "abs": lambda n: "out = " + "abs(" * n + "a" + ")" * n + " > 0",
    "sum": lambda n: "out = a" + " + b" * n + " > 0",
    "decl": lambda n: "float v = " + "(" * n + "a" + ")" * n + "\nout = v > 0",
}
DEEP_SLOW = {   # a few tenths of a second each: thorough tier only
    "bounded": lambda n: "out = " + "G[0,1] " * n + "(a > 0)",
    "and": lambda n: "out = (a > 0)" + " and (b > 0)" * n,
    "implies": lambda n: "out = " + "(a > 0) -> (" * n + "(b > 0)" + ")" * n,
    "until": lambda n: "out = (a > 0)" + " until[0,1] (b > 0)" * n,
    "assertions": lambda n: "\n".join("o%d = a > %d;" % (i, i) for i in range(n)),
}


def gen_deep(rng, thorough):
    shapes = dict(DEEP)
    if thorough:
        shapes.update(DEEP_SLOW)
    k = rng.choice(sorted(shapes))
    n = rng.choice([1000, 1500, 2000, 3000] + ([400, 700, 5000, 10000] if thorough else []))
    return shapes[k](n), [], "deep:" + k


def family(stream, v):
    """Violations are reported once per kind of failure: an exception that is not RTAMTException by its type and the kind of
    text (import / annotation / other), anything else by the stream family and the oracle."""
    imp = v.replay.get("impl") or ()
    if len(imp) > 2 and imp[0] == "other":
        text = v.replay.get("text", "")
        return imp[1], ("topic" if "@topic" in text else "import" if "import " in text and imp[1] != "KeyError" else "expression")
    fam = stream.split(":")
    return (":".join(fam[:2]).split(".")[0] if fam[0] == "mutant" else fam[0]), v.replay.get("oracle", "model")


def explore(ctx, rng, count):
    thorough = ctx.tier == "thorough"
    items = []          # (text, consts, stream, extra): extra None = compared with the model
    for _ in range(6 if not thorough else 40):
        t, cs, st = gen_deep(rng, thorough)
        items.append((t, cs, st, {"free": ()}))
    for _ in range(count):
        text, consts = gen_valid(rng)
        items.append((text, consts, "valid", None))
        lv = literal_variant(rng, text)
        if lv is not None:
            items.append((lv[0], consts, "mutant:" + lv[1], None))
        im = interval_mutant(rng, text)
        if im is not None:
            items.append((im[0], consts, "mutant:" + im[1], None))
        if rng.random() < 0.4:
            dv = dotted_variant(rng, text)
            if dv is not None:
                items.append((dv[0], consts, "mutant:" + dv[1], None))
        for _k in range(2):
            mt, kind = FR.mutate(rng, text)
            items.append((mt, consts, "mutant:" + kind, None))
        if rng.random() < 0.5:
            items.append((FR.soup(rng), [], "soup", None))
        if rng.random() < 0.15:
            # declared constants with non-decimal values, used in expressions and as bounds
            v = rng.choice(["0X1F", "0B11", "0x3", "3", "1_0", "2.5", "1E1", "0x1f", "0b1", "1__0", "0x1__F", "2__0.5"])   # valid literals only: the value comes through the API
            items.append((rng.choice(["out = a >= K9", "out = once[0,K9](a >= 1)", "out = always[K9,K9] (a > K9)"]), [("K9", v)], "const-value", None))
        r = rng.random()
        if r < 0.10:
            expr, cs, place, st, watch = gen_place(rng)
            items.append(("out = %s;" % expr, cs, st + "/assertion", None))        # the assertion form is held to the model
            items.append((place % expr, cs, st, {"place": (expr, place), "watch": watch}))
        elif r < 0.15:
            t, cs, st = gen_import(rng)
            items.append((t, cs, st, {"free": ()}))
        elif r < 0.19:
            t, cs, st, watch = gen_topic(rng)
            items.append((t, cs, st, {"free": watch}))
    ms = [None] * len(items)
    # model calls grouped by constants
    by = {}
    for i, (text, consts, _, extra) in enumerate(items):
        if extra is None:
            by.setdefault(tuple(consts), []).append(i)
    for cs, idxs in by.items():
        res = FR.model_parse([items[i][0] for i in idxs], consts=cs)
        for i, r in zip(idxs, res):
            ms[i] = r
    seen = set()
    for (text, consts, stream, extra), m in zip(items, ms):
        ctx.evaluations += 1
        ctx.count("stream:" + stream.split(":")[0])
        if extra is None:
            v, d = check_text(ctx, text, consts, stream, m)
            ctx.count("accepted" if m[0] == "ok" else "rejected")
        elif "place" in extra:
            v, d = check_place(ctx, extra["place"][0], consts, extra["place"][1], stream, extra["watch"]), None
        else:
            (out, v), d = check_free(ctx, text, consts, stream, extra["free"]), None
            ctx.count("model-free:" + ("accepted" if out[0] == "ok" else "rejected"))
        if v is None and d is None:
            ctx.traces_validated += 1
            if extra is None and len(ctx.samples) < 5 and (stream.startswith("mutant") or len(ctx.samples) < 2):
                ctx.sample({"text": text, "stream": stream, "outcome": m[0]})
        if v is not None:
            fam = family(stream, v)
            if fam not in seen:
                seen.add(fam)
                ctx.violations.append(v)
                if len(ctx.violations) >= 8:
                    break
        if d is not None:
            ctx.diffs.append(d)
    # the engine writes the first five: the verdict that depends on the place first, then one per family
    ctx.violations.sort(key=lambda v: 0 if v.replay.get("oracle") == "place" else 1 if str(v.stream).startswith("place") else 2)


def replay(ctx, obj):
    consts = [tuple(c) for c in obj.get("consts", [])]
    c = Ctx(ctx.id, ctx.tier, ctx.seed)
    if obj.get("oracle") == "place":
        v = check_place(c, obj["expr"], consts, obj["place"], "replay", obj.get("watch", ()))
    elif obj.get("oracle") == "free":
        v = check_free(c, obj["text"], consts, "replay", obj.get("watch", ()))[1]
    else:
        m, = FR.model_parse([obj["text"]], consts=consts)
        v, d = check_text(c, obj["text"], consts, "replay", m)
    return (v is None), (v.what if v else "parse() behaves as the language definition requires on the replayed text")


def run(ctx):
    for obj in disc.corpus("C14"):
        consts = [tuple(c) for c in obj.get("consts", [])]
        m, = FR.model_parse([obj["text"]], consts=consts)
        ctx.evaluations += 1
        ctx.count("stream:corpus")
        v, d = check_text(ctx, obj["text"], consts, "corpus", m)
        if v is not None:
            ctx.violations.append(v)
        if d is not None:
            ctx.diffs.append(d)
    if ctx.violations:
        return
    explore(ctx, ctx.subrng("front"), ctx.budget(1000, 12000))


def search(ctx):
    explore(ctx, ctx.subrng("search"), ctx.budget(3000, 12000))
