"""C02 — the i-th update() of the discrete-time online monitor = offline robustness at sample i.

Tie: stream `on-d`.  For every generated past-time specification (single formula, formula with
duplicated sub-formula text, multi-assertion text whose assertions reference earlier ones) and trace:
   implementation  update() x n                       (real code)
   implementation  evaluate()[i] of a fresh offline object on the whole trace
   M-alg           runOnline (tree of operator objects)  (Lean, Float, table from the source)
   M-spec          rho                                   (Lean)
"""
from .. import common, formula as F, impl, disc
from ..common import same_vals
from ..engine import Violation, Ctx

RULE = ("past-time specs (depth<=5, bounds 0..4): typed and untyped random formulas, formulas in which a stateful "
        "sub-formula text is duplicated, and multi-assertion texts whose later assertions reference earlier ones "
        "(stateful sub-specifications referenced 1-3 times); traces of length 1..12 over small dyadic values; in one case in five "
        "set_sampling_period() is called again between two updates with the period and unit already configured (only the tolerance "
        "may differ); about one case in five is monitored after pastify() (the identity on these specifications), among them "
        "the stream pastified-prev-sprev (strong previous alone, under once / historically / since, and next to the weak "
        "previous of the same operand). "
        "distinct by (spec text, data); non-trivial when the online outputs are not a constant +-inf list.")
EXPLANATION = ("theorems: C02_run_eq_rho (fresh monitor fed n samples returns rho at every step, all formulas without future "
               "operators), rho_online_prefix (value at t depends on samples <= t only), C02_online_eq_offline (i-th update = "
               "offline value at i on every extension), C02_table (construction visitor supports exactly the past node classes). "
               "Correspondence: update() stream vs mirror (bit-for-bit) vs rho vs the implementation's own offline evaluate().")
ASSUMPTIONS = ["values form a bounded linear order (no NaN); NaN-tainted cases are compared with the mirror only",
               "the model keeps operator state per syntax-tree position; the code keys it by printed node name and evaluates each "
               "name once per update (validated on duplicated-text and shared sub-spec streams, not proved)"]
TRUSTED_EXTRA = ["equivalence of the name-keyed operator dictionary (one evaluation per name and update) with per-position state: "
                 "validated by correspondence only"]

VARS = ["a", "b", "c"]
REGIONS = {}


def stateful(f):
    return f[0] in ("t1", "t2", "tb1", "tb2")


def gen_case(rng):
    g = F.Gen(rng, VARS, F.PAST_ONLY, max_bound=rng.choice([2, 4, 4, 6]))
    r = rng.random()
    d = rng.choice([1, 2, 2, 3, 3, 4, 5])
    n = 1 if rng.random() < 0.1 else rng.randint(2, 12)
    if r < 0.06:
        return gen_pastified_prev(rng, g, n)
    if r < 0.45:
        f = g.formula(d)
        return {"stream": "typed", "f": f, "n": n, "asserts": None}
    if r < 0.6:
        f = g.untyped(min(d, 4))
        return {"stream": "untyped", "f": f, "n": n, "asserts": None}
    if r < 0.8:
        # duplicated text: s occurs twice (or three times) in the formula
        s = g.formula(min(d, 3))
        while not any(stateful(x) for x in F.subformulas(s)):
            s = ("t1", rng.choice(["prev", "once", "hist", "sprev"]), s) if rng.random() < 0.6 else \
                ("tb1", rng.choice(["once", "hist"]), *g.bounds(), s)
        other = g.formula(1)
        shape = rng.choice(["and", "or", "implies", "nest", "three"])
        if shape == "nest":
            f = ("b", "and", s, ("t1", rng.choice(["prev", "once", "hist"]), ("b", "or", s, other)))
        elif shape == "three":
            f = ("b", "or", ("b", "and", s, other), ("b", "implies", s, ("u", "not", s)))
        else:
            f = ("b", shape, s, s) if rng.random() < 0.5 else ("b", shape, s, ("b", "and", other, s))
        if rng.random() < 0.35:
            # near-duplicate text: the second copy differs in one constant by a tiny amount (one ulp, 1e-9, 1e-7): operators
            # are keyed by the printed node name, which must tell the two copies apart
            consts = [x for x in F.subformulas(s) if x[0] == "c"]
            if consts:
                import math
                c0 = rng.choice(consts)[1]
                c1 = rng.choice([math.nextafter(c0, 10.0), c0 + 1e-9, c0 + 1e-7, c0 + 4e-7])

                def swap(x):
                    if x[0] == "c" and x[1] == c0:
                        return ("c", c1)
                    return F.rebuild(x, [swap(k) for k in F.children(x)])
                f = ("b", rng.choice(["and", "or"]), s, swap(s))
                return {"stream": "near-duplicate-text", "f": f, "n": n, "asserts": None, "tiny": True}
        return {"stream": "duplicate-text", "f": f, "n": n, "asserts": None}
    # multi-assertion: names p0, p1 ... each may reference earlier names
    k = rng.randint(1, 3)
    names, defs, inl = [], [], {}
    for j in range(k):
        body = g.formula(rng.choice([1, 2, 3]))
        if not any(stateful(x) for x in F.subformulas(body)):
            body = ("t1", rng.choice(["prev", "once", "hist", "sprev", "rise"]), body)
        if names and rng.random() < 0.6:
            body = ("b", rng.choice(["and", "or"]), body, ("v", rng.choice(names)))
        nm = "p%d" % j
        names.append(nm)
        defs.append((nm, body))
    top = ("b", rng.choice(["and", "or", "implies"]), ("v", rng.choice(names)), ("v", rng.choice(names)))
    if rng.random() < 0.5:
        top = ("b", "and", top, ("t1", rng.choice(["prev", "once"]), ("v", names[-1])))
    defs.append(("out", top))
    # inlined formula
    env = {}
    for nm, body in defs:
        env[nm] = subst(body, env)
    return {"stream": "multi-assertion", "f": env["out"], "n": n, "asserts": defs}


def gen_pastified_prev(rng, g, n):
    """Past-only specification monitored online after pastify() (the documented workflow; on a specification without future
    operators pastify() is the identity) in which the strong previous occurs: alone, under a latching operator (once,
    historically, since, which carry the value of sample 0 to every later sample), and next to the weak previous of the same
    operand (the two print different names and must keep their own operators and initial values, -inf and +inf)."""
    s = g.formula(rng.choice([1, 1, 2]))
    sp, wp = ("t1", "sprev", s), ("t1", "prev", s)
    other = g.formula(1)
    shape = rng.choice(["alone", "latch", "latch", "both", "both", "since", "both-latch"])
    if shape == "alone":
        f = sp
    elif shape == "latch":
        f = ("t1", rng.choice(["once", "hist"]), sp if rng.random() < 0.6 else ("b", rng.choice(["and", "or"]), sp, other))
    elif shape == "both":
        f = ("b", rng.choice(["and", "or", "implies"]), *((wp, sp) if rng.random() < 0.5 else (sp, wp)))
    elif shape == "since":
        f = ("t2", "since", other, sp) if rng.random() < 0.5 else ("t2", "since", sp, other)
    else:
        f = ("b", rng.choice(["and", "or"]), ("t1", "once", sp), ("t1", "hist", wp))
    return {"stream": "pastified-prev-sprev", "f": f, "n": n, "asserts": None, "pastify": True}


def subst(f, env):
    if f[0] == "v" and f[1] in env:
        return env[f[1]]
    return F.rebuild(f, [subst(c, env) for c in F.children(f)])


def all_vars(case):
    vs = set(F.variables(case["f"]))
    if case["asserts"]:
        names = {nm for nm, _ in case["asserts"]}
        for _, b in case["asserts"]:
            vs |= set(F.variables(b)) - names
    return sorted(vs)


def bound_fn(case):
    per = case.get("period")
    if not per:
        return lambda k: str(k)
    return (lambda k: str(2 * k)) if tuple(per) == (2, "s") else (lambda k: "%dms" % (500 * k))


def spec_text(case):
    bf = bound_fn(case)
    if case["asserts"]:
        return "\n".join("%s = %s;" % (nm, F.to_text(b, bound=bf)) for nm, b in case["asserts"])
    return "out = " + F.to_text(case["f"], bound=bf)


TOLERANCES = [0.0, 0.05, 0.1, 0.1, 0.2, 0.25, 0.5, 1.0, None]


def gen_reconf(rng, n):
    """Calls of set_sampling_period() in the middle of a run (before update #k, 1 <= k < n) that repeat the period and the unit
    configured before the first update; only the tolerance may differ (None: the argument is left out), which concerns the
    sampling-violation counter alone.  The meaning of the specification is the same before and after such a call, so the values
    of the later updates are still the offline robustness.  (Calls that change the period or the unit are not generated.)"""
    ks = sorted(set(rng.randint(1, n - 1) for _ in range(rng.choice([1, 1, 1, 2, 3]))))
    return [[k, rng.choice(TOLERANCES)] for k in ks]


def run_online_reconf(text, variables, data, n, reconf, period=None, extra_decl=(), struct=(), extra_entries=None, limit=20.0):
    """impl.run_online_discrete with the calls of `reconf` ([[k, tolerance], ...]) made before update #k: same period and unit as
    configured (the defaults 1 s when none was), payload = list of the update() return values."""
    per = tuple(period) if period else (1, "s")
    kw = {"sampling": (per[0], per[1], 0.1)} if period else {}
    calls = {}
    for k, tol in reconf:
        calls.setdefault(int(k), []).append(tol)

    def go():
        from ..msgs import Msg
        spec = impl.make_spec("ond", impl.struct_text(text, struct), variables, extra_decl=extra_decl, struct=struct, **kw)
        spec.parse()
        outs = []
        for i in range(n):
            for tol in (calls.get(i, ()) if i >= 1 else ()):
                if tol is None:
                    spec.set_sampling_period(per[0], per[1])
                else:
                    spec.set_sampling_period(per[0], per[1], tol)
            row = [(v, Msg(data[v][i]) if v in struct else data[v][i]) for v in data]
            if extra_entries:
                row.insert(min(extra_entries[0], len(row)), (extra_entries[1], 7.0))
            outs.append(spec.update(i, row))
        return outs
    return impl.guarded(go, limit)


def run_impl(case):
    text = spec_text(case)
    vs = all_vars(case)
    extra = [nm for nm, _ in case["asserts"][:-1]] if case["asserts"] else []
    data = {v: case["data"][v] for v in vs}
    struct = case.get("struct") or ()
    kw = {"sampling": (case["period"][0], case["period"][1], 0.1)} if case.get("period") else {}
    if case.get("reconf"):
        on = run_online_reconf(text, vs, data, case["n"], case["reconf"], period=case.get("period"), extra_decl=extra, struct=struct,
                               extra_entries=case.get("extra_entries"))
    else:
        on = impl.run_online_discrete(text, vs, data, case["n"], extra_decl=extra, struct=struct, extra_entries=case.get("extra_entries"),
                                      pastify=bool(case.get("pastify")), **kw)
    off = impl.eval_offline_discrete(text, vs, data, case["n"], extra_decl=extra, struct=struct, **kw)
    return text, on, off


def check_case(ctx, case, m_on, m_rho, m_gen=None):
    text, on, off = run_impl(case)
    rep = {"pastify": bool(case.get("pastify")), "reconf": case.get("reconf"), "extra_entries": case.get("extra_entries"), "period": case.get("period"), "struct": list(case.get("struct") or ()), "spec": text, "data": case["data"], "n": case["n"], "formula": F.to_proto(case["f"]),
           "asserts": [[nm, F.to_proto(b)] for nm, b in case["asserts"]] if case["asserts"] else None,
           "monitor": "discrete online", "impl_online": on, "impl_offline": off, "model_online": m_on, "model_rho": m_rho}
    if on[0] != "ok":
        return Violation("update() raised %s on past-time spec %r (n=%d)" % (on[1:], text, case["n"]), rep, stream=case["stream"]), None
    outs = on[1]
    if case.get("pastify"):
        text = text + "   [monitored after pastify()]"
    if case.get("reconf"):
        text = text + "   [set_sampling_period(%s) repeated with tolerance %s]" % (
            ", ".join(str(x) for x in (case.get("period") or (1, "s"))),
            ", ".join("%s before update #%d" % ("left out" if tol is None else tol, k) for k, tol in case["reconf"]))
    if disc.nontrivial(outs):
        ctx.nontrivial.add(disc.data_key(rep["spec"], case["data"]))
    if m_rho[0] == "undef":
        ctx.skipped_undef += 1
        if m_on[0] == "ok" and not same_vals(outs, m_on[1]):
            return None, Violation("online implementation differs from the mirror on a NaN-tainted case: " + text, rep,
                                   failing_input=False, stream="on-d/mirror")
        return None, None
    if m_rho[0] != "ok":
        raise common.HarnessError("driver: %r" % (m_rho,))
    # property oracle 1: against the implementation's own offline evaluation
    if off[0] == "ok":
        offv = [p[1] for p in off[1]]
        if not common.same_nums(outs, offv):
            i = next(j for j in range(case["n"]) if j >= len(outs) or not common.num_eq(outs[j], offv[j]))
            return Violation("update() #%d returns %r, offline evaluate() gives %r at sample %d: %s" %
                             (i, outs[i] if i < len(outs) else None, offv[i], i, text.replace("\n", " ")), rep,
                             stream=case["stream"]), None
    # property oracle 2: against rho
    if not common.same_nums(outs, m_rho[1]):
        i = next(j for j in range(case["n"]) if j >= len(outs) or not common.num_eq(outs[j], m_rho[1][j]))
        return Violation("update() #%d returns %r, rho is %r: %s" % (i, outs[i], m_rho[1][i], text.replace("\n", " ")), rep,
                         stream=case["stream"]), None
    if off[0] != "ok":
        return None, Violation("offline evaluate() of the same spec raised %r: %s" % (off[1:], text), rep, failing_input=False,
                               stream="on-d/offline")
    if m_on[0] != "ok" or not same_vals(outs, m_on[1]):
        return None, Violation("mirror runOnline differs from the implementation (which agrees with rho): " + text, rep,
                               failing_input=False, stream="on-d/mirror")
    if m_gen is not None and (m_gen[0] != "ok" or not same_vals(outs, m_gen[1])):
        return None, Violation("the operation classes translated from the source (run under the Lean semantics of the Python subset) "
                               "give %r, the implementation %r: %s" % (m_gen, outs, text), dict(rep, model_generated=m_gen),
                               failing_input=False, stream="on-d/translated")
    return None, None


def model(case):
    outs = common.driver_run([disc.proto_case("ond", case["f"], case["data"], case["n"]),
                              disc.proto_case("rhot", case["f"], case["data"], case["n"]),
                              disc.proto_case("ondgen", case["f"], case["data"], case["n"])])
    return disc.parse_model(outs[0]), disc.parse_model(outs[1]), disc.parse_model(outs[2])


def explore(ctx, rng, count):
    cases = []
    for _ in range(count):
        c = gen_case(rng)
        c["data"] = F.gen_trace(rng, all_vars(c) or ["a"], c["n"])
        # some variables are objects of a user-defined type read through a field (`a.value`)
        c["struct"] = sorted(v for v in (all_vars(c) or ["a"]) if rng.random() < 0.5) if rng.random() < 0.15 else []
        # the same number of samples under another sampling period: bounds written as durations (2 s: [2k]; 500 ms: [500k ms])
        c["period"] = rng.choice([(2, "s"), (500, "ms")]) if rng.random() < 0.15 else None
        # an entry that is not an input of the specification somewhere in every row given to update()
        c["extra_entries"] = [rng.randint(0, 3), rng.choice(["aux", "out", "zz9"])] if rng.random() < 0.15 else None
        # set_sampling_period() called again between two updates with the period and unit already configured (at most the
        # tolerance differs): the state of the operators and hence the later values must not be affected
        c["reconf"] = gen_reconf(rng, c["n"]) if c["n"] >= 2 and rng.random() < 0.2 else None
        # pastify() before the first update (the documented online workflow): the identity on a specification without future
        # operators, so the updates are still the offline robustness.  (Not combined with the mid-run reconfiguration runner.)
        if c.get("pastify") or (not c["reconf"] and rng.random() < 0.15):
            c["pastify"], c["reconf"] = True, None
        if not disc.known_region(ctx, c, REGIONS):
            cases.append(c)
        else:
            ctx.skipped_known += 1
    lines = []
    for c in cases:
        lines.append(disc.proto_case("ond", c["f"], c["data"], c["n"]))
        lines.append(disc.proto_case("rhot", c["f"], c["data"], c["n"]))
        lines.append(disc.proto_case("ondgen", c["f"], c["data"], c["n"]))
    outs = common.driver_run(lines)
    for i, c in enumerate(cases):
        m_on, m_rho, m_gen = (disc.parse_model(outs[3 * i + k]) for k in range(3))
        ctx.evaluations += 1
        ctx.count("stream:" + c["stream"])
        if c.get("reconf"):
            ctx.count("stream:reconfigure-mid-run")
        if c.get("pastify"):
            ctx.count("stream:pastified")
        for op in set(F.ops(c["f"])):
            ctx.count("op:" + op)
        v, d = check_case(ctx, c, m_on, m_rho, m_gen)
        if v is None and d is None:
            ctx.traces_validated += 1
            if len(ctx.samples) < 4 and (c["asserts"] or c["stream"] == "duplicate-text"):
                ctx.sample({"spec": spec_text(c), "data": c["data"], "updates": run_impl(c)[1][1]})
        if v is not None:
            if not c["asserts"]:
                scratch = Ctx(ctx.id, ctx.tier, ctx.seed)
                c2 = disc.shrink_case(c, lambda cc: check_case(scratch, cc, *model(cc))[0] is not None)
                v2 = check_case(scratch, c2, *model(c2))[0]
                v = v2 or v
            ctx.violations.append(v)
            if len(ctx.violations) >= 3:
                return
        if d is not None:
            ctx.diffs.append(d)


def case_of_replay(obj):
    c = {"stream": "replay", "f": F.from_proto(obj["formula"]), "n": obj["n"],
         "data": {k: [float(x) for x in v] for k, v in obj["data"].items()}, "asserts": None, "struct": obj.get("struct") or [], "period": obj.get("period"), "extra_entries": obj.get("extra_entries"),
         "reconf": obj.get("reconf"), "pastify": bool(obj.get("pastify"))}
    if obj.get("asserts"):
        c["asserts"] = [(nm, F.from_proto(b)) for nm, b in obj["asserts"]]
    return c


def replay(ctx, obj):
    if obj.get("kind") == "units":
        data = {k: [float(x) for x in v] for k, v in obj["data"].items()}
        per = obj.get("period") or [1, obj["unit"]]
        kw = dict(unit=obj["unit"], sampling=(per[0], per[1], 0.1), limit=8.0, timeout_is_outcome=True)
        on = impl.run_online_discrete(obj["spec"], sorted(data), data, obj["n"], pastify=bool(obj.get("pastify")), **kw)
        off = impl.eval_offline_discrete(obj["spec"], sorted(data), data, obj["n"], **kw)
        ok = on[0] == "ok" and off[0] == "ok" and common.same_nums(on[1], [p_[1] for p_ in off[1]])
        return ok, ("online agrees with offline" if ok else "online %r differs from offline %r" % (on[:2], off[:2]))
    c = case_of_replay(obj)
    scratch = Ctx(ctx.id, ctx.tier, ctx.seed)
    v, d = check_case(scratch, c, *model(c))
    if v is not None:
        return False, v.what
    return True, "online updates agree with offline evaluation and rho on the replayed case"


def units_stream(ctx, rng, count):
    """Online = offline when the bounds carry explicit units: two bounded past operators over the same operands whose bounds are
    written with the same numerals and different units (the printed names of the nodes, by which the online operators are
    stored, must tell them apart), default unit and period in the finer unit."""
    for _ in range(count):
        fine, coarse = rng.choice([("ms", "s"), ("us", "ms"), ("ns", "us")])
        k = rng.randint(1, 3)
        op1 = rng.choice(["once", "historically", "once", "historically", "since"])
        op2 = op1 if rng.random() < 0.7 else rng.choice(["once", "historically"])
        p = "(a >= %s)" % rng.choice(["0.5", "1.0", "2.0"])
        slow = "since" in (op1, op2)        # the bounded since of rtamt is quadratic in the bound (1000 samples here)
        if slow:
            k = 1

        def app(op, b):
            if op == "since":
                return "((a <= 3.0) since[0,%s] %s)" % (b, p)
            return "(%s[0,%s] %s)" % (op, b, p)
        b1, b2 = "%d%s" % (k, coarse), ("%d%s" % (k, fine) if rng.random() < 0.5 else "%d" % k)
        if rng.random() < 0.3:
            b1 = "%d%s" % (k * 1000, fine)          # control: everything in the finer unit
        text = "out = (%s %s (%s%s))" % (app(op1, b1), rng.choice(["and", "or"]), rng.choice(["", "not "]), app(op2, b2))
        n = rng.randint(3, 4) if slow else rng.randint(3, 9)
        data = {"a": [rng.choice([-1.0, 0.0, 1.0, 2.0, 3.0, 5.0]) for _ in range(n)]}
        kw = dict(unit=fine, sampling=(1, fine, 0.1), limit=20.0)
        # the model keys the operators by the formula, the code by the printed name of the node: the names have to tell apart
        # nodes that differ (checked on the parsed tree for every bounded operator class, without running the monitor)
        for o1 in ("once", "historically", "since", "eventually", "always", "until"):
            def app2(b):
                return "((a <= 3.0) %s[0,%s] %s)" % (o1, b, p) if o1 in ("since", "until") else "(%s[0,%s] %s)" % (o1, b, p)
            t2 = "out = (%s or (not %s))" % (app2(b1), app2(b2))

            def names():
                sp = impl.make_spec("offd", t2, ["a"], unit=fine, sampling=(1, fine, 0.1))
                sp.parse()
                return impl.name_collisions(sp)
            col = impl.guarded(names)
            if col[0] == "ok" and col[1]:
                # look for a trace on which the shared operator shows: online against offline on this very specification
                found = False
                for _t in range(10):
                    n2 = 5
                    d2 = {"a": [rng.choice([-1.0, 0.0, 1.0, 2.0, 3.0, 5.0]) for _ in range(n2)]}
                    on2 = impl.run_online_discrete(t2, ["a"], d2, n2, pastify=(o1 in ("eventually", "always", "until")), **kw)
                    off2 = impl.eval_offline_discrete(t2, ["a"], d2, n2, **kw)
                    if on2[0] == "ok" and off2[0] == "ok" and o1 not in ("eventually", "always", "until") \
                            and not common.same_nums(on2[1], [p_[1] for p_ in off2[1]]):
                        ctx.violations.append(Violation("update() returns %r, offline evaluate() gives %r: %s (unit %s, period 1 %s); two "
                                                        "different nodes print the same name %r" % (on2[1], [p_[1] for p_ in off2[1]], t2, fine, fine, col[1][0]),
                                                        {"kind": "units", "spec": t2, "unit": fine, "data": d2, "n": n2}, stream="units/names"))
                        found = True
                        break
                if found:
                    break
                ctx.diffs.append(Violation("two different nodes of %s print the same name %r (the online interpreter stores one operator "
                                           "per name)" % (t2, col[1][0]), {"kind": "units", "spec": t2, "unit": fine, "data": data, "n": n},
                                           failing_input=False, stream="units/names"))
                break
        past = False
        if rng.random() < 0.3:
            # a lower bound without unit takes the unit of the upper bound (not the default unit); the sampling period is one
            # coarse unit, and the monitor is pastified first (the identity on a specification without future operators)
            lo = rng.randint(1, 2)
            hi = lo + rng.randint(0, 2)
            o_ = rng.choice(["once", "historically", "since"])
            iv = "[%d,%d%s]" % (lo, hi, coarse)
            text = "out = ((a <= 3.0) since%s %s)" % (iv, p) if o_ == "since" else "out = (%s%s %s)" % (o_, iv, p)
            n = rng.randint(4, 9)
            data = {"a": [rng.choice([-1.0, 0.0, 1.0, 2.0, 3.0, 5.0]) for _ in range(n)]}
            kw = dict(unit=fine, sampling=(1, coarse, 0.1), limit=20.0)
            past = rng.random() < 0.7
            ctx.count("stream:units/unitless-lower-bound" + ("/pastified" if past else ""))
        on = impl.run_online_discrete(text, ["a"], data, n, pastify=past, **kw)
        off = impl.eval_offline_discrete(text, ["a"], data, n, **kw)
        ctx.evaluations += 1
        ctx.count("stream:units")
        rep = {"kind": "units", "spec": text, "unit": fine, "period": list(kw["sampling"][:2]), "pastify": past, "data": data, "n": n,
               "impl_online": on, "impl_offline": off}
        if on[0] != "ok" or off[0] != "ok":
            ctx.violations.append(Violation("online / offline raised %r / %r: %s (unit %s, period 1 %s)" % (on[:2], off[:2], text, fine, fine),
                                            rep, stream="units"))
        elif not common.same_nums(on[1], [p_[1] for p_ in off[1]]):
            ctx.violations.append(Violation("update() returns %r, offline evaluate() gives %r: %s (unit %s, period 1 %s)"
                                            % (on[1], [p_[1] for p_ in off[1]], text, fine, fine), rep, stream="units"))
        else:
            ctx.traces_validated += 1
            ctx.nontrivial.add((text, str(data)))
        if len(ctx.violations) >= 3:
            return


def run(ctx):
    for obj in disc.corpus("C02"):
        ok, msg = replay(ctx, obj)
        ctx.evaluations += 1
        ctx.count("stream:corpus")
        if not ok and not disc.known_region(ctx, case_of_replay(obj), REGIONS):
            ctx.violations.append(Violation("corpus case fails: " + msg, obj, stream="corpus"))
    if ctx.violations:
        return
    explore(ctx, ctx.subrng("on-d"), ctx.budget(1000, 12000))
    if not ctx.violations:
        units_stream(ctx, ctx.subrng("units"), ctx.budget(80, 800))


def search(ctx):
    explore(ctx, ctx.subrng("search"), ctx.budget(1500, 6000))
