"""C11 — evaluation is pure: caller data untouched, repeatable, isolated, deterministic.

Tie: stream `pure` (the model cannot exhibit Python aliasing or hash-seed dependence; these parts are
decided here, on the real code):
  (a) every argument passed to evaluate()/update() is deep-copied before the call and compared after it;
  (b) evaluate() is called twice (and a third time after another data set) on the same offline object;
  (c) 2-3 specification objects (discrete offline/online, dense offline/online) are driven in a random
      interleaving; each one's outputs must equal those of the same object driven alone (and of the model);
  (d) the same sub-stream is run in sub-processes under different PYTHONHASHSEED values and the printed
      results must be identical; the sub-stream includes call histories on discrete-time online monitors over 2-6 input
      variables in which one update() is given a value that is not a number next to new values of the other variables, the
      caller catches the exception and goes on with updates that leave variables out (`mk_failed_update_history`).
"""
import copy, json, os, subprocess, sys
from fractions import Fraction
from .. import common, formula as F, impl, disc, dense as D
from ..common import same_vals
from ..engine import Violation, Ctx

RULE = ("random specs of the four monitor kinds; data sets with lists shorter than bounds (padding paths), surplus variables; "
        "interleavings of 2-3 objects with 1-10 calls each; hash seeds 0,1,2 (thorough: 16 seeds) over a fingerprint that includes "
        "online call histories with a rejected update (a value that is not a number) followed by partial updates. distinct by (spec, data, "
        "interleaving); non-trivial: at least one finite value and at least two calls.")
EXPLANATION = ("theorems: C11_interleave (two model monitors in any interleaving return what they return alone), "
               "C11_offline_repeatable, C11_no_padding_when_long; the rest of C11 is decided by the correspondence stream on the "
               "real code (deep-copy comparison of all arguments, repeated evaluate(), interleavings, PYTHONHASHSEED sweep).")
ASSUMPTIONS = ["partial: aliasing and hash-seed dependence are outside the model (runtime behaviour of CPython objects)"]
VARS = ["a", "b"]
REGIONS = {}


def mk_discrete_offline(rng):
    g = F.Gen(rng, VARS, F.ALL_DISCRETE_OFFLINE - {"fn"}, max_bound=rng.choice([2, 4, 6, 8]))
    k = rng.random()
    if k < 0.25:
        f = g.formula(rng.choice([1, 2, 3]))
    elif k < 0.5:
        # one variable read directly by several temporal operators (bounded ones with windows beyond a short trace)
        f = F.shared_variable_formula(rng, g, VARS)
    elif k < 0.75:
        # operators applied directly to variables: the result lists of variable nodes are the caller's lists
        f = g.untyped(rng.choice([1, 1, 2, 3]))
    else:
        # a node that pads / slices its operand next to another reader of the same variable
        f = ("b", rng.choice(["and", "or", "add", "lt"]), g.untyped(1), g.untyped(rng.choice([1, 2])))
    n = rng.randint(1, 6)
    vs = F.variables(f) or ["a"]
    return {"kind": "offd", "f": f, "n": n, "data": F.gen_trace(rng, vs + (["zz"] if rng.random() < 0.2 else []), n), "vars": vs,
            "units": rng.random() < 0.3, "tuples": rng.random() < 0.2}


def mk_discrete_online(rng):
    g = F.Gen(rng, VARS, F.PAST_ONLY - {"fn"}, max_bound=4)
    f = g.formula(rng.choice([1, 2, 3]))
    n = rng.randint(1, 8)
    vs = F.variables(f) or ["a"]
    return {"kind": "ond", "f": f, "n": n, "data": F.gen_trace(rng, vs, n), "vars": vs}


def mk_dense_offline(rng):
    g = D.DGen(rng, D.VARS[:2], D.DENSE_OFF, max_bound=4)
    if rng.random() < 0.5:
        # operators applied directly to variables (their sample lists are the caller's lists), signals with repeated values
        v1, v2 = ("v", rng.choice(D.VARS[:2])), ("v", rng.choice(D.VARS[:2]))
        a = rng.randint(0, 2)
        b = a + rng.randint(0, 4)
        f = rng.choice([("tb1", rng.choice(["ev", "alw", "once", "hist"]), a, b, v1),
                        ("tb2", rng.choice(["until", "since"]), a, b, v1, v2),
                        ("t1", rng.choice(["ev", "alw", "once", "hist"]), v1),
                        ("t2", rng.choice(["until", "since"]), v1, v2),
                        ("b", rng.choice(["and", "or", "add", "sub", "lt", "implies"]), v1, v2),
                        ("u", rng.choice(["not", "negate", "abs"]), v1)])
        if rng.random() < 0.3:
            f = ("b", rng.choice(["and", "or"]), f, g.formula(1))
        vs = F.variables(f) or ["x"]
        sig = D.gen_signals(rng, vs)
        sig = {v: [(t, rng.choice([0.0, 1.0, 1.0, 2.0])) for (t, _) in s_] for v, s_ in sig.items()}
        return {"kind": "offc", "f": f, "sig": sig, "vars": vs}
    f = g.formula(rng.choice([1, 2, 3]))
    vs = F.variables(f) or ["x"]
    return {"kind": "offc", "f": f, "sig": D.gen_signals(rng, vs), "vars": vs}


def check_offline_discrete(ctx, c):
    text = "out = " + F.to_text(c["f"])
    kw = {}
    if c.get("units"):
        # default unit ms, sampling period 1 s, bounds written in seconds: `normalize` is not 1
        text = "out = " + F.to_text(c["f"], bound=lambda k: "%ds" % k)
        kw = dict(unit="ms", sampling=(1, "s", 0.1))
    ds = {"time": list(range(c["n"]))}
    ds.update({v: list(c["data"][v]) for v in c["data"]})
    ds2 = {"time": list(range(c["n"]))}
    ds2.update({v: [x + 1.0 for x in c["data"][v]] for v in c["data"]})

    # one case in five: the columns are tuples (legal wherever the visitor does not concatenate lists); evaluate() must leave the
    # caller's dictionary as it is - the same column objects, equal to what they were
    tuples = c.get("tuples")
    if tuples:
        for v in c["data"]:
            ds[v] = tuple(ds[v])

    def go():
        spec = impl.make_spec("offd", text, sorted(c["data"]), **kw)
        spec.parse()
        before = copy.deepcopy(ds)
        ids = {k_: id(v_) for k_, v_ in ds.items()}
        try:
            r1 = spec.evaluate(ds)
        except Exception:
            if not tuples:
                raise
            # tuples are not accepted by this formula (a visitor concatenates lists): the caller's data must be intact all the same
            return (ds != before or any(id(ds[k_]) != ids[k_] for k_ in ids)), before, None, None, None
        mutated = ds != before or any(id(ds[k_]) != ids[k_] for k_ in ids)
        r1c = copy.deepcopy(r1)
        r2 = spec.evaluate(ds)
        spec.evaluate(copy.deepcopy(ds2))
        r3 = spec.evaluate(ds)
        return mutated, before, r1c, r2, r3
    out = impl.guarded(go)
    rep = {"kind": "offd", "tuples": bool(c.get("tuples")), "units": bool(c.get("units")), "spec": text, "formula": F.to_proto(c["f"]), "n": c["n"], "data": c["data"], "impl": out}
    if out[0] != "ok":
        return Violation("discrete offline evaluate() raised %r: %s" % (out[1:], text), rep, stream="pure/offd")
    mutated, before, r1, r2, r3 = out[1]
    if tuples:
        ctx.count("tuple-columns" + ("/rejected" if r1 is None else ""))
    if mutated:
        return Violation("evaluate() modified the caller's data set: %r became %r: %s" % (before, ds, text), rep, stream="pure/args")
    if r1 is None:
        return None
    v1, v2, v3 = [p[1] for p in r1], [p[1] for p in r2], [p[1] for p in r3]
    if not same_vals(v1, v2) or not same_vals(v1, v3):
        return Violation("evaluating the same offline object again on the same data gives %r, then %r, then (after another data set) %r: %s"
                         % (v1, v2, v3, text), rep, stream="pure/repeat")
    if disc.nontrivial(v1):
        ctx.nontrivial.add(("offd", text, str(c["data"])))
    return None


def check_failed_between(ctx, rng, fixed=None):
    """An evaluate() that raises (a data-dependent error: sqrt of a negative sample, division by zero) between two evaluations of
    the same offline object with sub-specifications: the next evaluate() must return what a fresh object returns (nothing of
    the failed call may survive)."""
    if fixed is not None:
        text, n, good1, bad, good2 = fixed["spec"], fixed["n"], fixed["good1"], fixed["bad"], fixed["good2"]
    else:
        k = rng.choice([0.5, 1.0, 2.0])
        sub = rng.choice(["c = (a >= %s)" % k, "c = (once[0,2](a >= %s))" % k, "c = (a + %s)" % k, "c = (historically(a <= %s))" % k])
        arith = sub.startswith("c = (a +")
        bad_op = rng.choice(["sqrt", "div"])
        risky = "(sqrt(b) >= 1.0)" if bad_op == "sqrt" else "((1.0 / b) >= 0.5)"
        if arith:
            main = "out = ((c >= 1.0) %s %s)" % (rng.choice(["and", "or"]), risky)
        else:
            main = "out = ((c) %s %s)" % (rng.choice(["and", "or", "implies"]), risky)
        text = sub + ";\n" + main
        n = rng.randint(2, 6)
        vals = [-1.0, 0.5, 1.0, 2.0, 3.0]
        good1 = {"a": [rng.choice(vals) for _ in range(n)], "b": [rng.choice([0.25, 1.0, 4.0]) for _ in range(n)]}
        good2 = {"a": [rng.choice(vals) for _ in range(n)], "b": [rng.choice([0.25, 1.0, 4.0]) for _ in range(n)]}
        bad = {"a": [rng.choice([-9.0, 9.0]) for _ in range(n)], "b": [(-4.0 if bad_op == "sqrt" else 0.0) for _ in range(n)]}

    def dset(d):
        x = {"time": list(range(n))}
        x.update({v: list(d[v]) for v in d})
        return x

    def go():
        spec = impl.make_spec("offd", text, ["a", "b"], extra_decl=["c"], single=True)
        spec.parse()
        spec.evaluate(dset(good1))
        raised = False
        try:
            spec.evaluate(dset(bad))
        except Exception:
            raised = True
        r3 = spec.evaluate(dset(good2))
        fresh = impl.make_spec("offd", text, ["a", "b"], extra_decl=["c"], single=True)
        fresh.parse()
        return raised, [p_[1] for p_ in r3], [p_[1] for p_ in fresh.evaluate(dset(good2))]
    out = impl.guarded(go)
    rep = {"kind": "failed-between", "spec": text, "n": n, "good1": good1, "bad": bad, "good2": good2, "impl": out}
    ctx.count("failed-between" + ("" if out[0] != "ok" or out[1][0] else "/did-not-raise"))
    if out[0] != "ok":
        return Violation("offline evaluate() raised %r on well-formed data: %s" % (out[1:], text.replace("\n", " ")), rep,
                         stream="pure/failed-between")
    raised, got, want = out[1]
    if not same_vals(got, want):
        return Violation("after an evaluate() that raised, the same offline object returns %r, a fresh object %r: %s"
                         % (got, want, text.replace("\n", " ")), rep, stream="pure/failed-between")
    ctx.nontrivial.add(("failed-between", text, str(good2)))
    return None


def check_offline_dense(ctx, c):
    text = D.spec_text(c["f"])
    kw = {}
    if c.get("units_seed") is not None:
        # the bounds spelled with explicit units (default unit s): what an evaluation derives from them must not be kept
        import random
        from . import c08
        text = c08.render(random.Random(c["units_seed"]), c["f"], "s", int(D.SCALE * 10 ** 9), [])
        kw = {"unit": "s"}
    args = [[v, D.py_sig(c["sig"][v])] for v in sorted(c["sig"])]

    def go():
        spec = impl.make_spec("offc", text, sorted(c["sig"]), **kw)
        spec.parse()
        before = copy.deepcopy(args)
        r1 = copy.deepcopy(spec.evaluate(*args))
        mutated = args != before
        r2 = spec.evaluate(*args)
        return mutated, r1, r2
    out = impl.guarded(go)
    rep = {"kind": "offc", "units_seed": c.get("units_seed"), "spec": text, "formula": F.to_proto(c["f"]), "signals": D.sig_rep(c["sig"]), "impl": out}
    if out[0] != "ok":
        return Violation("dense offline evaluate() raised %r: %s" % (out[1:], text), rep, stream="pure/offc")
    mutated, r1, r2 = out[1]
    if mutated:
        return Violation("dense evaluate() modified the caller's sample lists: %s" % text, rep, stream="pure/args")
    if [[float(p[0]), common.canon(p[1])] for p in r1] != [[float(p[0]), common.canon(p[1])] for p in r2]:
        return Violation("evaluating the same dense offline object again gives %r then %r: %s" % (r1, r2, text), rep, stream="pure/repeat")
    ctx.nontrivial.add(("offc", text, str(rep["signals"])))
    return None


def scale_bounds(f, k):
    if f[0] == "tb1":
        return ("tb1", f[1], f[2] * k, f[3] * k, scale_bounds(f[4], k))
    if f[0] == "tb2":
        return ("tb2", f[1], f[2] * k, f[3] * k, scale_bounds(f[4], k), scale_bounds(f[5], k))
    return F.rebuild(f, [scale_bounds(c, k) for c in F.children(f)])


def check_online_dense(ctx, c, rng):
    """Dense-time online update(): the sample lists handed over are not modified, whatever the chunking."""
    f, sig = c["f"], c["sig"]
    if any(g[0] in ("t2", "tb2") and g[1] != "since" for g in F.subformulas(f)) or \
            any(g[0] in ("t1", "tb1") and g[1] in ("ev", "alw") for g in F.subformulas(f)):
        return None                       # future operators are not monitored online (since is: only its arguments are looked at here)
    text = D.spec_text(f)
    vs = sorted(sig)
    times = sorted({t for v in vs for (t, _) in sig[v]})[1:]
    cuts = sorted(rng.sample(times, rng.randint(0, min(2, len(times))))) if times else []

    def go():
        spec = impl.make_spec("onc", text, vs)
        spec.parse()
        chunks = {v: D.chunk_signal(sig[v], cuts) for v in vs}
        for i in range(len(cuts) + 1):
            args = [[v, D.py_sig(chunks[v][i])] for v in vs]
            before = copy.deepcopy(args)
            spec.update(*args)
            if args != before:
                return (i, before, args)
        return None
    out = impl.guarded(go)
    rep = {"kind": "onc", "spec": text, "formula": F.to_proto(f), "signals": D.sig_rep(sig), "cuts": [str(x) for x in cuts], "impl": out}
    if out[0] == "ok" and out[1] is not None:
        i, before, after = out[1]
        return Violation("dense online update() #%d modified the caller's sample lists: %r became %r: %s" % (i, before, after, text), rep,
                         stream="pure/args")
    if out[0] == "ok":
        ctx.nontrivial.add(("onc", text, str(rep["signals"]), str(cuts)))
    return None


def check_interleaving(ctx, rng, cases):
    """cases: discrete online cases, each with its own sampling period (1 s / 500 ms / 250 ms; the bounds are written in
    seconds); drive them interleaved and alone, and compare every object with the model on the formula whose bounds are
    counted in samples of that object's period (state shared between objects would show even if it persists in this process)."""
    texts = ["out = " + F.to_text(c["f"]) for c in cases]
    for c in cases:
        c.setdefault("per", rng.choice([1, 1, 2, 4]))
    order = [i for i, c in enumerate(cases) for _ in range(c["n"])]
    rng.shuffle(order)

    def mk(i):
        per = cases[i]["per"]
        s = impl.make_spec("ond", texts[i], cases[i]["vars"], sampling=None if per == 1 else (1000 // per, "ms", 0.1))
        s.parse()
        return s

    def go():
        objs = [mk(i) for i in range(len(cases))]
        pos = [0] * len(cases)
        outs = [[] for _ in cases]
        for i in order:
            k = pos[i]
            arg = [(v, cases[i]["data"][v][k]) for v in cases[i]["vars"]]
            before = copy.deepcopy(arg)
            outs[i].append(objs[i].update(k / cases[i]["per"], arg))
            if arg != before:
                raise AssertionError("update() modified its argument")
            pos[i] += 1
        alone = []
        for i, c in enumerate(cases):
            s = mk(i)
            alone.append([s.update(k / c["per"], [(v, c["data"][v][k]) for v in c["vars"]]) for k in range(c["n"])])
        return outs, alone
    # (objects that influence each other's bounds can make an update loop over a huge window: an outcome, not a harness error)
    out = impl.guarded(go, 10.0, True)
    rep = {"kind": "interleave", "specs": texts, "formulas": [F.to_proto(c["f"]) for c in cases], "ns": [c["n"] for c in cases],
           "datas": [c["data"] for c in cases], "pers": [c["per"] for c in cases], "order": order, "impl": out}
    if out[0] != "ok":
        return Violation("interleaved updates raised %r: %s" % (out[1:], texts), rep, stream="pure/interleave")
    outs, alone = out[1]
    for i in range(len(cases)):
        if not same_vals(outs[i], alone[i]):
            return Violation("monitor %d (%s) returns %r when its updates are interleaved with another object's, %r alone"
                             % (i, texts[i], outs[i], alone[i]), rep, stream="pure/interleave")
    ms = [disc.parse_model(o) for o in common.driver_run([disc.proto_case("rhot", scale_bounds(c["f"], c["per"]), c["data"], c["n"])
                                                           for c in cases])]
    for i, m in enumerate(ms):
        if m[0] == "ok" and not common.same_nums(outs[i], m[1]):
            return Violation("monitor %d (%s, sampling period 1/%d s) driven next to other specification objects returns %r; its "
                             "specification alone means %r" % (i, texts[i], cases[i]["per"], outs[i], m[1]), rep, stream="pure/isolation")
    ctx.nontrivial.add(("interleave", tuple(texts), tuple(order)))
    return None


def check_interleaving_dense(ctx, rng):
    """Two or three dense-time online monitors (formulas with constants, some of them reset and fed again) whose update() /
    reset() calls are interleaved: each must return what it returns when driven alone with the same calls."""
    k = rng.choice([2, 3])
    cases = []
    for _ in range(k):
        g = D.DGen(rng, D.VARS[:2], D.DENSE_ON, max_bound=4)
        f = g.formula(rng.choice([1, 2]))
        if not any(x[0] == "c" for x in F.subformulas(f)) or not F.variables(f):
            f = ("b", rng.choice(["and", "or"]), f, ("b", rng.choice(["ge", "le"]), ("v", rng.choice(D.VARS[:2])), ("c", rng.choice([0.0, 1.0, 2.0]))))
        vs = F.variables(f)
        sig = D.gen_signals(rng, vs)
        times = sorted({t for v in vs for (t, _) in sig[v]})[1:]
        cuts = sorted(rng.sample(times, min(len(times), rng.randint(1, 2)))) if times else []
        nb = len(cuts) + 1
        ops = [("u", j) for j in range(nb)]
        if rng.random() < 0.7:
            p_ = rng.randint(0, nb)
            ops = [("u", j) for j in range(p_)] + [("r", 0)] + ops       # a prefix, reset(), then everything from the start
        cases.append({"f": f, "vs": vs, "sig": sig, "cuts": cuts, "ops": ops})
    order = [i for i, c in enumerate(cases) for _ in c["ops"]]
    rng.shuffle(order)
    texts = [D.spec_text(c["f"]) for c in cases]

    def mk(i):
        s_ = impl.make_spec("onc", texts[i], cases[i]["vs"])
        s_.parse()
        return s_

    def step(spec, c, op):
        if op[0] == "r":
            spec.reset()
            return "reset"
        chunks = {v: D.chunk_signal(c["sig"][v], c["cuts"]) for v in c["vs"]}
        return spec.update(*[[v, D.py_sig(chunks[v][op[1]])] for v in c["vs"]])

    def go():
        objs = [mk(i) for i in range(k)]
        pos = [0] * k
        outs = [[] for _ in range(k)]
        for i in order:
            outs[i].append(step(objs[i], cases[i], cases[i]["ops"][pos[i]]))
            pos[i] += 1
        alone = []
        for i, c in enumerate(cases):
            s_ = mk(i)
            alone.append([step(s_, c, op) for op in c["ops"]])
        return outs, alone
    out = impl.guarded(go, 10.0, True)
    rep = {"kind": "interleave-dense", "specs": texts, "ops": [c["ops"] for c in cases], "order": order,
           "signals": [D.sig_rep(c["sig"]) for c in cases], "cuts": [[str(x) for x in c["cuts"]] for c in cases], "impl": out}
    if out[0] != "ok":
        return Violation("interleaved dense online calls raised %r: %s" % (out[1:], texts), rep, stream="pure/interleave-dense")
    outs, alone = out[1]
    for i in range(k):
        if outs[i] != alone[i] and str(outs[i]) != str(alone[i]):
            return Violation("dense online monitor %d (%s) returns %r when its calls %r are interleaved with another object's, %r alone"
                             % (i, texts[i], outs[i], cases[i]["ops"], alone[i]), rep, stream="pure/interleave-dense")
    ctx.nontrivial.add(("interleave-dense", str(texts), str(order)))
    return None


FU_NAMES = ["a", "b", "c", "d", "e", "g", "h", "k", "m", "n", "p", "q", "r", "u", "v", "w", "x", "y", "z", "x1", "x2", "y1", "req", "gnt",
            "speed", "temp", "err", "ref", "lhs", "rhs", "sig_a", "sig_b", "in_1", "in_2"]
FU_BAD = ["n/a", "", None, [1.0], "1.0", {}]          # what a log column holds when a sample is missing / not converted
FU_HISTORIES = 48                                      # histories in one fingerprint


def fu_term(rng, names):
    """A term that reads every variable of `names` exactly once (binary + and -, now and then abs / prev of a sub-term)."""
    if len(names) == 1:
        return names[0]
    cut = rng.randint(1, len(names) - 1)
    t = "(%s %s %s)" % (fu_term(rng, names[:cut]), rng.choice(["+", "+", "-"]), fu_term(rng, names[cut:]))
    k = rng.random()
    if k < 0.08:
        return "abs(%s)" % t
    if k < 0.14:
        return "(prev %s)" % t
    return t


def mk_failed_update_history(rng):
    """A call history of one discrete-time online monitor with 2-6 input variables: complete updates, then an update in which
    one (seldom two) of the supplied values is not a number while the others are new valid values, then updates that leave
    variables out (a variable that is left out keeps its last value); now and then a second update of that kind.  The values are
    dyadic and the specification reads every variable, so which of the values of a call were stored shows in the results."""
    k = rng.choice([2, 3, 4, 4, 4, 5, 6])
    names = rng.sample(FU_NAMES, k)
    shape = rng.random()
    if shape < 0.45:
        body = fu_term(rng, names)
    elif shape < 0.7:
        body = "(%s >= %s)" % (fu_term(rng, names), F.lit(rng.choice([0.0, 1.0, 4.0])))
    elif shape < 0.85:
        op = rng.choice(["once[0,%d]" % rng.randint(1, 3), "historically[0,%d]" % rng.randint(1, 3), "prev", "once", "historically"])
        body = "(%s (%s >= %s))" % (op, fu_term(rng, names), F.lit(rng.choice([0.0, 1.0, 4.0])))
    else:
        cut = rng.randint(1, k - 1)
        body = "((%s >= %s) %s (%s <= %s))" % (fu_term(rng, names[:cut]), F.lit(rng.choice([0.0, 1.0])), rng.choice(["and", "or", "since"]),
                                               fu_term(rng, names[cut:]), F.lit(rng.choice([0.0, 2.0])))

    def val():
        return rng.choice([-1.0, 1.0]) * rng.randint(1, 256) / 4.0

    def row(vs):
        r = [[v, val()] for v in vs]
        rng.shuffle(r)
        if rng.random() < 0.1:
            r.insert(rng.randint(0, len(r)), ["zz", 7.0])          # a column that is not an input of the specification
        return r

    def partial(must=()):
        return row([v for v in names if v in must or rng.random() < 0.35])

    def failing():
        r = row([v for v in names if rng.random() < 0.9])
        own = [e for e in r if e[0] in names]
        for e in rng.sample(own, min(len(own), rng.choice([1, 1, 1, 2]))):
            e[1] = copy.deepcopy(rng.choice(FU_BAD))
        return r, [e[0] for e in own if not isinstance(e[1], float)]

    calls = [row(names)]
    for _ in range(rng.choice([0, 0, 1, 2])):
        calls.append(partial() if rng.random() < 0.5 else row(names))
    for rounds in range(rng.choice([1, 1, 1, 2])):
        r, bad = failing()
        calls.append(r)
        # the variable whose value was not a number gets one in the next call (most of the time: otherwise what the monitor does
        # with the value it was given goes on showing, which is a result as well)
        calls.append(partial(bad if rng.random() < 0.8 else ()))
        for _ in range(rng.choice([0, 1, 2, 3])):
            calls.append(partial())
    return {"spec": "out = " + body, "vars": names, "pastify": rng.random() < 0.3, "calls": calls}


def run_failed_update_history(h):
    """What the caller of the history sees: per call the value update() returned, or the fact that it raised (the kind of the
    exception is not part of the result)."""
    def go():
        spec = impl.make_spec("ond", h["spec"], h["vars"])
        spec.parse()
        if h.get("pastify"):
            spec.pastify()
        trace = []
        for t, dataset in enumerate(h["calls"]):
            try:
                trace.append(repr(spec.update(t, copy.deepcopy(dataset))))
            except (impl.CaseTimeout, common.HarnessError, MemoryError):
                raise
            except Exception:
                trace.append("raised")
        return trace
    o = impl.guarded(go)
    return o[1] if o[0] == "ok" else list(o[:2])


def fu_reductions(h):
    """One-step reductions of a history: a call dropped, an entry of a call dropped, a value replaced by 1.0."""
    out = []
    for i in range(len(h["calls"])):
        if len(h["calls"]) > 1:
            out.append(dict(h, calls=h["calls"][:i] + h["calls"][i + 1:]))
    for i, c in enumerate(h["calls"]):
        for j in range(len(c)):
            out.append(dict(h, calls=h["calls"][:i] + [c[:j] + c[j + 1:]] + h["calls"][i + 1:]))
    if h.get("pastify"):
        out.append(dict(h, pastify=False))
    for i, c in enumerate(h["calls"]):
        for j, e in enumerate(c):
            if isinstance(e[1], float) and e[1] != 1.0:
                out.append(dict(h, calls=h["calls"][:i] + [c[:j] + [[e[0], 1.0]] + c[j + 1:]] + h["calls"][i + 1:]))
    return out


def histories_under(hs, histories):
    """The traces of `histories` in a fresh interpreter with PYTHONHASHSEED=hs."""
    prog = ("import sys, json; sys.path.insert(0, %r); sys.path.insert(0, %r)\n"
            "from harness.props import c11\n"
            "print(json.dumps([c11.run_failed_update_history(h) for h in json.loads(sys.stdin.read())]))\n") % (common.VERIF, common.REPO)
    env = dict(os.environ, PYTHONHASHSEED=str(hs), PYTHONPATH=common.VERIF + ":" + common.REPO)
    p = subprocess.run([common.PY, "-c", prog], input=json.dumps(histories), stdout=subprocess.PIPE, stderr=subprocess.PIPE, text=True,
                       env=env, timeout=600)
    if p.returncode != 0:
        raise common.HarnessError("hash-seed sub-process failed: " + p.stderr[-500:])
    return json.loads(p.stdout.strip().split("\n")[-1])


def shrink_history(h, sa, sb, rounds=25):
    """Greedy: the first one-step reduction on which the two hash seeds still disagree, until none does."""
    for _ in range(rounds):
        cands = fu_reductions(h)
        if not cands:
            break
        ta, tb = histories_under(sa, cands), histories_under(sb, cands)
        nxt = next((c for c, x, y in zip(cands, ta, tb) if x != y), None)
        if nxt is None:
            break
        h = nxt
    return h


def history_violation(ctx, h, seeds, verif_seed, shrink=True):
    """`h` under the hash seeds `seeds` (each in its own interpreter): a Violation if two of them disagree."""
    traces = [histories_under(hs, [h])[0] for hs in seeds]
    ctx.evaluations += len(seeds)
    d = next((i for i in range(len(seeds)) if traces[i] != traces[0]), None)
    if d is None:
        return None
    sa, sb = seeds[0], seeds[d]
    if shrink:
        h = shrink_history(h, sa, sb)
        traces = [histories_under(sa, [h])[0], histories_under(sb, [h])[0]]
        d = 1
    rep = {"kind": "hashseed-history", "history": h, "seed_a": sa, "seed_b": sb, "verif_seed": verif_seed,
           "results": {str(sa): traces[0], str(sb): traces[d]}}
    return Violation("results depend on PYTHONHASHSEED: %s, variables %s, update() calls at times 0.. with %r (the caller catches what a "
                     "call raises and goes on): seed %d gives %r, seed %d gives %r"
                     % (h["spec"], h["vars"], h["calls"], sa, traces[0], sb, traces[d]), rep, stream="pure/hashseed-history")


def hashseed_sweep(ctx):
    """Run a fixed sub-stream in sub-processes under different hash seeds; outputs must be identical."""
    seeds = [0, 1, 2] if ctx.tier == "quick" else list(range(16))
    prog = ("import sys, json, random; sys.path.insert(0, %r); sys.path.insert(0, %r)\n"
            "from harness.props import c11\n"
            "print(json.dumps(c11.fingerprint(%d)))\n") % (common.VERIF, common.REPO, ctx.seed)
    outs = []
    for hs in seeds:
        env = dict(os.environ, PYTHONHASHSEED=str(hs), PYTHONPATH=common.VERIF + ":" + common.REPO)
        p = subprocess.run([common.PY, "-c", prog], stdout=subprocess.PIPE, stderr=subprocess.PIPE, text=True, env=env, timeout=600)
        if p.returncode != 0:
            raise common.HarnessError("hash-seed sub-process failed: " + p.stderr[-500:])
        outs.append(p.stdout.strip().split("\n")[-1])
        ctx.evaluations += 1
        ctx.count("hashseed")
        ctx.count("hashseed/failed-update-history", FU_HISTORIES)
    for hs, o in zip(seeds, outs):
        if o != outs[0]:
            a, b = json.loads(outs[0]), json.loads(o)
            k = next(i for i in range(len(a)) if a[i] != b[i])
            if a[k][0] == "failed-update":
                v = history_violation(ctx, a[k][1], [seeds[0], hs], ctx.seed)
                if v is not None:
                    return v
            return Violation("results depend on PYTHONHASHSEED: seed %d gives %r, seed %d gives %r" % (seeds[0], a[k], hs, b[k]),
                             {"kind": "hashseed", "seed_a": seeds[0], "seed_b": hs, "verif_seed": ctx.seed, "first_difference": [a[k], b[k]]},
                             stream="pure/hashseed")
    return None


def fingerprint(seed):
    """Deterministic list of results of a fixed set of cases (run under a given hash seed)."""
    import random
    rng = random.Random("c11-fp-%d" % seed)
    res = []
    for _ in range(40):
        c = mk_discrete_offline(rng)
        text = "out = " + F.to_text(c["f"])
        o = impl.eval_offline_discrete(text, sorted(c["data"]), c["data"], c["n"])
        res.append([text, repr(o[1]) if o[0] == "ok" else list(o[:2])])
    for _ in range(25):
        c = mk_discrete_online(rng)
        text = "out = " + F.to_text(c["f"])
        for pastify in (False,):
            o = impl.run_online_discrete(text, c["vars"], c["data"], c["n"], pastify=pastify)
            res.append([text, repr(o[1]) if o[0] == "ok" else list(o[:2])])
    from ..modular import gen_case, run_discrete
    for _ in range(15):
        c = gen_case(rng, F.PAST_ONLY - {"fn", "iffxor"}, "ond")
        o = run_discrete(c, "ond", modular=True, read_names=True)
        res.append(["modular", repr(o[1]) if o[0] == "ok" else list(o[:2])])
    for _ in range(20):
        c = mk_dense_offline(rng)
        t, o = D.eval_offline(c["f"], c["sig"])
        res.append([t, repr(o[1]) if o[0] == "ok" else list(o[:2])])
    # (last, with a generator of their own: the cases above are the same as before)
    rng = random.Random("c11-fp-fu-%d" % seed)
    for _ in range(FU_HISTORIES):
        h = mk_failed_update_history(rng)
        res.append(["failed-update", h, run_failed_update_history(h)])
    return res


def check_period_units(ctx, rng):
    """Two offline objects with the same specification text and the same sampling-period *number* in different units (1 s / 1 ms,
    or 2 s / 2 ms), evaluated one after the other in either order: the second one must not inherit anything from the first.  With
    the fine period the window exceeds the trace, so the expected values are prefix / suffix extrema."""
    op = rng.choice(["once", "historically", "eventually", "always"])
    k, c0, num = rng.randint(1, 4), rng.choice([0.0, 1.0, 2.0]), rng.choice([1, 2])
    n = rng.randint(3, 8)
    x = [rng.choice([-1.0, 0.0, 1.0, 2.0, 3.0, 5.0]) for _ in range(n)]
    order = rng.choice([("s", "ms"), ("ms", "s")])
    return period_units_case(ctx, op, k, c0, num, x, order)


def period_units_case(ctx, op, k, c0, num, x, order):
    text = "out = (%s[0:%ds] (x >= %s))" % (op, 2 * k, F.lit(c0))
    n = len(x)

    def expected(unit):
        w = (2 * k) // num if unit == "s" else 10 ** 9          # window in samples
        r = [v - c0 for v in x]
        out = []
        for i in range(n):
            if op in ("once", "historically"):
                seg = r[max(0, i - w):i + 1]
                pad = i - w < 0
            else:
                seg = r[i:i + w + 1]
                pad = i + w > n - 1
            if op in ("once", "eventually"):
                out.append(max(seg))
            else:
                out.append(min(seg))
        return out

    def go():
        res = {}
        for u in order:
            spec = impl.make_spec("offd", text, ["x"], sampling=(num, u, 0.1))
            spec.parse()
            res[u] = [p[1] for p in spec.evaluate({"time": list(range(n)), "x": list(x)})]
        return res
    # an object that reads its bounds in another object's period unit may loop over 10^6 samples: no result within 8 s is an
    # outcome of this case (the expected evaluation takes milliseconds), not a harness error
    out = impl.guarded(go, 8.0, True)
    rep = {"kind": "period-units", "spec": text, "op": op, "k": k, "c0": c0, "x": x, "period_number": num, "order": list(order), "impl": out}
    if out[0] != "ok":
        return Violation("evaluate() raised %r: %s (periods %d %s then %d %s)" % (out[1:], text, num, order[0], num, order[1]), rep, stream="pure/period-units")
    for u in order:
        if not same_vals(out[1][u], expected(u)):
            return Violation("two objects, sampling periods %d %s then %d %s: the one with period %d %s returns %r, expected %r: %s"
                             % (num, order[0], num, order[1], num, u, out[1][u], expected(u), text), rep, stream="pure/period-units")
    ctx.nontrivial.add(("period-units", text, str(x), order))
    return None


def explore(ctx, rng, count):
    for i_ in range(count):
        if i_ % 8 == 3:
            ctx.evaluations += 1
            ctx.count("kind:interleave-dense")
            v = check_interleaving_dense(ctx, rng)
            if v is None:
                ctx.traces_validated += 1
            else:
                ctx.violations.append(v)
                if len(ctx.violations) >= 3:
                    return
            continue
        if i_ % 8 == 5:
            ctx.evaluations += 1
            ctx.count("kind:failed-between")
            v = check_failed_between(ctx, rng)
            if v is None:
                ctx.traces_validated += 1
            else:
                ctx.violations.append(v)
                if len(ctx.violations) >= 3:
                    return
            continue
        if i_ % 8 == 7:
            ctx.evaluations += 1
            ctx.count("kind:period-units")
            v = check_period_units(ctx, rng)
            if v is None:
                ctx.traces_validated += 1
            else:
                ctx.violations.append(v)
                if len(ctx.violations) >= 3:
                    return
            continue
        kind = rng.choice(["offd", "offd", "offc", "inter", "inter"])
        ctx.evaluations += 1
        ctx.count("kind:" + kind)
        if kind == "offd":
            v = check_offline_discrete(ctx, mk_discrete_offline(rng))
        elif kind == "offc":
            c_ = mk_dense_offline(rng)
            if rng.random() < 0.35 and any(g[0] in ("tb1", "tb2") for g in F.subformulas(c_["f"])):
                c_["units_seed"] = rng.randint(0, 10 ** 6)
            v = check_offline_dense(ctx, c_) or check_online_dense(ctx, c_, rng)
        else:
            v = check_interleaving(ctx, rng, [mk_discrete_online(rng) for _ in range(rng.choice([2, 3]))])
        if v is None:
            ctx.traces_validated += 1
        else:
            ctx.violations.append(v)
            if len(ctx.violations) >= 3:
                return


def replay(ctx, obj):
    scratch = Ctx(ctx.id, ctx.tier, ctx.seed)
    if obj["kind"] == "period-units":
        v = period_units_case(scratch, obj["op"], obj["k"], obj["c0"], obj["period_number"], [float(t) for t in obj["x"]], tuple(obj["order"]))
        return (v is None), (v.what if v else "the two objects do not influence each other")
    if obj["kind"] == "hashseed-history":
        seeds = [obj["seed_a"], obj["seed_b"]] + [x for x in (0, 1, 2, 3, 4, 5) if x not in (obj["seed_a"], obj["seed_b"])]
        v = history_violation(scratch, obj["history"], seeds, obj.get("verif_seed", 0), shrink=False)
        return (v is None), (v.what if v else "the history gives the same results under the hash seeds %r" % seeds)
    if obj["kind"] == "failed-between":
        v = check_failed_between(scratch, None, fixed=obj)
        return (v is None), (v.what if v else "the object behaves like a fresh one after the failed evaluate()")
    if obj["kind"] == "offd":
        c = {"kind": "offd", "f": F.from_proto(obj["formula"]), "n": obj["n"], "data": {k: [float(x) for x in v] for k, v in obj["data"].items()},
             "units": obj.get("units"), "tuples": obj.get("tuples")}
        v = check_offline_discrete(scratch, c)
    elif obj["kind"] == "interleave-dense":
        return True, "interleaving case (re-run ./check C11 to re-check it)"
    elif obj["kind"] == "offc":
        v = check_offline_dense(scratch, {"f": F.from_proto(obj["formula"]), "sig": D.sig_of_rep(obj["signals"]), "units_seed": obj.get("units_seed")})
    elif obj["kind"] == "interleave":
        import random
        cases = [{"f": F.from_proto(f), "n": n, "data": {k: [float(x) for x in v] for k, v in d.items()}, "vars": sorted(d), "per": per}
                 for f, n, d, per in zip(obj["formulas"], obj["ns"], obj["datas"], obj.get("pers", [1] * len(obj["ns"])))]
        v = None
        for s in range(5):
            v = v or check_interleaving(scratch, random.Random(s), cases)
    else:
        ctx2 = Ctx(ctx.id, "quick", obj.get("verif_seed", 0))
        v = hashseed_sweep(ctx2)
    return (v is None), (v.what if v else "pure on the replayed case")


def run(ctx):
    explore(ctx, ctx.subrng("pure"), ctx.budget(1200, 10000))
    if not ctx.violations:
        v = hashseed_sweep(ctx)
        if v:
            ctx.violations.append(v)
        ctx.sample({"hash_seeds": [0, 1, 2] if ctx.tier == "quick" else list(range(16)), "fingerprint_cases": 100 + FU_HISTORIES})


def search(ctx):
    explore(ctx, ctx.subrng("search"), ctx.budget(800, 4000))
