"""C06 — interface-aware (IA) semantics differ from standard only at insensitive predicates.

Tie: stream `ia`.  5 semantics x random input/output assignment of the variables x monitor kinds
(discrete offline / online / pastified online; dense: harness/dense.py):
   implementation  rtamt.StlDiscreteTimeSpecification(semantics=...) with set_var_io_type
   model           the IA predicate override as a formula transformation `iaT` (Lean, IA.lean), then the
                   standard mirrors evalOff / runOnline / rho on the transformed formula
plus two metamorphic oracles on the real code: STANDARD ignores the io declarations, and when every
predicate is sensitive the IA result equals the standard result.
"""
from .. import common, formula as F, impl, disc
from ..common import same_vals
from ..engine import Violation, Ctx
import rtamt

RULE = ("typed random formulas whose predicates mix input and output variables (incl. predicates over constants only and over "
        "arithmetic of several variables), depth<=4; 5 semantics; every variable independently declared input/output (default "
        "output); monitors offd/ond/past; traces 1..10. distinct by (semantics, io, spec, data, monitor); non-trivial when the "
        "IA result differs from the standard result or is not constant +-inf.")
EXPLANATION = ("theorems: C06_vars_propagate (in_vars/out_vars as built by the node constructors = syntactic variable sets split by "
               "the declaration), C06_insensitive_iff, C06_standard_ignores_io, C06_iaT_preserves, C06_pred_clause (insensitive "
               "predicate = +-inf by satisfaction / 0, sensitive = numeric), C06_sensitive_unchanged, C06_offline_ia, C06_online_ia "
               "(the IA monitors compute rho of the transformed formula, by C01/C02). Correspondence: IA results of the real "
               "monitors vs the model; STANDARD vs io declarations.")
ASSUMPTIONS = ["the IA visitors are the standard ones with the predicate override (validated by the stream)"]

VARS = ["a", "b", "c"]
SEMS = {"standard": rtamt.Semantics.STANDARD, "outRob": rtamt.Semantics.OUTPUT_ROBUSTNESS, "inRob": rtamt.Semantics.INPUT_ROBUSTNESS,
        "inVac": rtamt.Semantics.INPUT_VACUITY, "outVac": rtamt.Semantics.OUTPUT_VACUITY}
ALLOW = {"offd": F.ALL_DISCRETE_OFFLINE - {"fn"}, "ond": F.PAST_ONLY - {"fn"},
         "past": {"arith", "cmp", "bool", "past", "bpast", "bfuture", "buntil", "bsince", "since", "not", "event"}}
REGIONS = {}


def run_impl(mon, text, vs, data, n, sem, io, struct=(), extra_decl=(), io0=None):
    def go():
        from ..msgs import Msg
        spec = impl.make_spec("bothd", impl.struct_text(text, struct), vs, semantics=SEMS[sem], io=io if io0 is None else io0, struct=struct,
                              extra_decl=extra_decl)
        spec.parse()
        if io0 is not None:
            # the io assignment is revised on the parsed object and the specification parsed again: the assignment in force at
            # the second parse() is the one that counts (an undeclared variable is an output)
            for v in vs:
                spec.set_var_io_type(v, io.get(v, "output"))
            spec.parse()
        if mon == "offd":
            ds = {"time": list(range(n))}
            ds.update({v: impl.wrap(data[v], v in struct) for v in vs})
            return [p[1] for p in spec.evaluate(ds)]
        if mon == "past":
            spec.pastify()
        return [spec.update(i, [(v, Msg(data[v][i]) if v in struct else data[v][i]) for v in vs]) for i in range(n)]
    return impl.guarded(go)


def gen_case(rng):
    mon = rng.choice(["offd", "offd", "ond", "past"])
    g = F.Gen(rng, VARS, ALLOW[mon], max_bound=3)
    f = g.formula(rng.choice([1, 2, 3, 4]))
    vs = F.variables(f) or ["a"]
    io = {v: rng.choice(["input", "output"]) for v in vs if rng.random() < 0.8}
    sem = rng.choice(list(SEMS))
    n = rng.randint(1, 10)
    # some variables are objects of a user-defined type, read through a field (`a.value`)
    struct = sorted(v for v in vs if rng.random() < 0.5) if rng.random() < 0.3 else []
    if rng.random() < 0.3 and mon in ("offd", "ond"):
        # a named arithmetic sub-expression compared several times: the variable sets of a predicate are built from those of its
        # operands, and the node of the name is shared by all its occurrences
        gt = F.Gen(rng, VARS, {"arith"}, max_bound=1)
        for _ in range(20):
            t = gt.term(2)
            if F.variables(t) and t[0] != "v":
                break

        def pred():
            other = ("v", rng.choice(VARS)) if rng.random() < 0.6 else ("c", rng.choice([0.0, 1.0, 2.0]))
            return ("b", rng.choice(F.CMP), ("v", "p0"), other) if rng.random() < 0.7 else ("b", rng.choice(F.CMP), other, ("v", "p0"))
        body = pred()
        for _ in range(rng.randint(1, 2)):
            body = ("b", rng.choice(["and", "or", "implies"]), body, pred()) if rng.random() < 0.5 else ("b", rng.choice(["and", "or"]), pred(), body)
        if rng.random() < 0.5:
            body = ("t1", rng.choice(["hist", "once"]), body)
        from ..modular import subst
        f = subst(body, {"p0": t})
        vs = F.variables(f)
        if t[0] != "v" and vs:
            io = {v: rng.choice(["input", "output"]) for v in vs if rng.random() < 0.9}
            return {"monitor": mon, "f": f, "vars": vs, "io": io, "sem": sem, "n": n, "data": F.gen_trace(rng, vs, n), "struct": [],
                    "text": "p0 = %s;\nout = %s" % (F.to_text(t), F.to_text(body)), "extra_decl": ["p0"]}
    case = {"monitor": mon, "f": f, "vars": vs, "io": io, "sem": sem, "n": n, "data": F.gen_trace(rng, vs, n), "struct": struct}
    if mon in ("offd", "ond") and rng.random() < 0.3:
        # re-parse variant: ONE specification object is parsed under a first io assignment, the assignment is revised with
        # set_var_io_type() and the object parsed again before it is evaluated; at least one variable changes sides
        io0 = {v: rng.choice(["input", "output"]) for v in vs if rng.random() < 0.8}
        w = rng.choice(vs)
        io0[w] = "input" if io.get(w, "output") == "output" else "output"
        case["io0"] = io0
    return case


def model(cases):
    lines = ["ia | %s | %s | %s" % (c["sem"], ",".join(v for v, t in c["io"].items() if t == "input"), F.to_proto(c["f"])) for c in cases]
    outs = common.driver_run(lines)
    lines2 = []
    for c, o in zip(cases, outs):
        if not o.startswith("ok "):
            raise common.HarnessError("model ia: " + o)
        c["tf"] = F.from_proto(o[3:])
        g = c["tf"]
        if c["monitor"] == "offd":
            lines2.append(disc.proto_case("offd", g, c["data"], c["n"]))
        elif c["monitor"] == "ond":
            lines2.append(disc.proto_case("ond", g, c["data"], c["n"]))
        else:
            p = common.driver_run(["past | " + F.to_proto(g)])[0]
            pf = F.from_proto(p[3:].split("|", 1)[1].strip())
            lines2.append(disc.proto_case("ond", pf, c["data"], c["n"]))
    return [disc.parse_model(o) for o in common.driver_run(lines2)]


def check_case(ctx, case, m):
    f, mon, n, data, vs = case["f"], case["monitor"], case["n"], case["data"], case["vars"]
    text = case.get("text") or "out = " + F.to_text(f)
    extra = case.get("extra_decl") or ()
    if extra:
        ctx.count("named-term")
    struct = case.get("struct") or []
    if struct:
        ctx.count("struct-typed variables")
    io0, shown = case.get("io0"), text
    if io0 is not None:
        ctx.count("re-parsed after set_var_io_type")
    out = run_impl(mon, text, vs, data, n, case["sem"], case["io"], struct, extra, io0=io0)
    if io0 is not None:
        shown = text + "   [parsed with io=%r, then set_var_io_type to the io given and parsed again]" % (io0,)
    rep = {"io0": io0, "text": case.get("text"), "extra_decl": list(extra), "struct": struct, "monitor": mon, "semantics": case["sem"], "io": case["io"], "spec": text, "formula": F.to_proto(f), "data": data, "n": n,
           "transformed": F.to_proto(case["tf"]), "impl": out, "model": m}
    if out[0] != "ok":
        return Violation("%s monitor, %s semantics, io=%r raised %r: %s" % (mon, case["sem"], case["io"], out[1:], shown), rep, stream="ia"), None
    vals = out[1]
    std = run_impl(mon, text, vs, data, n, "standard", {}, struct, extra)
    ctx.evaluations += 1
    if std[0] == "ok" and (disc.nontrivial(vals) or not same_vals(vals, std[1])):
        ctx.nontrivial.add((mon, case["sem"], tuple(sorted(case["io"].items())), text, tuple((k, tuple(v)) for k, v in sorted(data.items()))))
    if any(x != x for x in vals):
        ctx.skipped_undef += 1
        return None, None
    # STANDARD: the io declarations have no effect
    if case["sem"] == "standard":
        if std[0] != "ok" or not same_vals(vals, std[1]):
            return Violation("STANDARD semantics depends on the io declarations %r: %r vs %r: %s" % (case["io"], vals, std[1:], shown), rep,
                             stream="ia/standard"), None
    # all predicates sensitive -> same as standard
    if case["tf"] == f and std[0] == "ok" and not same_vals(vals, std[1]):
        return Violation("%s semantics, io=%r: no predicate is insensitive but the result differs from the standard one: %s"
                         % (case["sem"], case["io"], shown), rep, stream="ia/sensitive"), None
    if m[0] != "ok" or not common.same_nums(vals, m[1]):
        # the model is the declarative statement of the property: a difference is a violation of C06
        i = next((j for j in range(n) if m[0] != "ok" or j >= len(m[1]) or not common.num_eq(vals[j], m[1][j])), 0)
        return Violation("%s monitor, %s semantics, io=%r: value at %d is %r; standard evaluation with insensitive predicates "
                         "replaced gives %r: %s" % (mon, case["sem"], case["io"], i, vals[i], m[1][i] if m[0] == "ok" else m, shown),
                         rep, stream="ia"), None
    if not same_vals(vals, m[1]):
        return None, Violation("mirror differs bit-wise (signed zero) from the implementation: " + shown, rep, failing_input=False,
                               stream="ia/mirror")
    return None, None


def explore(ctx, rng, count):
    cases = [gen_case(rng) for _ in range(count)]
    ms = model(cases)
    for c, m in zip(cases, ms):
        ctx.evaluations += 1
        ctx.count("monitor:" + c["monitor"])
        ctx.count("sem:" + c["sem"])
        ctx.count("transformed" if c["tf"] != c["f"] else "all-sensitive")
        v, d = check_case(ctx, c, m)
        if v is None and d is None:
            ctx.traces_validated += 1
            if len(ctx.samples) < 4 and c["tf"] != c["f"]:
                ctx.sample({"monitor": c["monitor"], "semantics": c["sem"], "io": c["io"], "spec": "out = " + F.to_text(c["f"]),
                            "model_formula": F.to_proto(c["tf"])})
        if v is not None:
            ctx.violations.append(v)
            if len(ctx.violations) >= 3:
                return
        if d is not None and not (d.stream == "ia/mirror"):
            ctx.diffs.append(d)


def replay(ctx, obj):
    if obj.get("monitor") in ("offc", "onc"):
        from .. import dense
        return dense.replay_ia(ctx, obj)
    f = F.from_proto(obj["formula"])
    c = {"monitor": obj["monitor"], "f": f, "vars": F.variables(f) or ["a"], "io": obj["io"], "sem": obj["semantics"], "n": obj["n"],
         "data": {k: [float(x) for x in v] for k, v in obj["data"].items()}, "struct": obj.get("struct") or [],
         "text": obj.get("text"), "extra_decl": obj.get("extra_decl") or []}
    if obj.get("io0") is not None:
        c["io0"] = obj["io0"]
    m, = model([c])
    v, d = check_case(Ctx(ctx.id, ctx.tier, ctx.seed), c, m)
    return (v is None), (v.what if v else "IA result agrees with the model on the replayed case")


def run(ctx):
    explore(ctx, ctx.subrng("ia"), ctx.budget(1200, 10000))
    if not ctx.violations:
        try:
            from .. import dense
            dense.ia_stream(ctx)
        except ImportError:
            ctx.notes.append("dense-time IA stream not available yet")


def search(ctx):
    explore(ctx, ctx.subrng("search"), ctx.budget(1200, 6000))
