"""C09 — modular specifications are equivalent to their inlined form.

Tie: stream `mod`.  A random formula is decomposed into named sub-specifications (multi-assertion text or
add_sub_spec), some referenced several times, literals replaced by declared constants; the modular
specification and the single inlined specification are evaluated by the same real monitor (discrete offline,
online for past formulas, pastified online for bounded-future formulas; dense: harness/dense.py) and must
return identical values; the online run is also compared with the Lean mirror of the
dictionary-and-memo interpreter (`runProgram`).
"""
import re
from .. import common, formula as F, impl, disc, modular as M
from ..common import same_vals
from ..engine import Violation, Ctx

RULE = ("formulas of size>=4 (depth<=5) decomposed into 0-4 nested sub-specifications with 0-2 extra references, optional "
        "declared constants, rendered as multi-assertion text or through add_sub_spec; monitors offd/ond/past; traces 1..10. "
        "distinct by (modular text, data, monitor); non-trivial when the inlined result is not constant +-inf.")
EXPLANATION = ("theorems: C09_program_refines_trees (the dictionary-keyed, memoised, multi-assertion interpreter returns for every "
               "assertion and every operator sub-formula what its stand-alone monitor returns, whatever the sharing), "
               "C09_program_eq_rho (hence rho of the inlined formula). Correspondence: modular vs inlined on the real monitors; "
               "online modular run vs the mirror runProgram.")
ASSUMPTIONS = ["the parser substitutes the referenced node for a reference (validated: modular vs inlined results and spec_print)",
               "printed node names are injective on ASTs (the code keys operators by name, the model by formula)"]
TRUSTED_EXTRA = ["parser substitution of sub-specification references and constants: validated by correspondence only"]

ALLOW = {"offd": F.ALL_DISCRETE_OFFLINE - {"fn", "iffxor"}, "ond": F.PAST_ONLY - {"fn", "iffxor"},
         "past": {"arith", "cmp", "bool", "past", "bpast", "bfuture", "buntil", "bsince", "since", "not", "event"}}
REGIONS = {}


def check_case(ctx, case, m):
    mon = case["monitor"]
    rep = M.rep_of(case)
    mod = M.run_discrete(case, mon, modular=True)
    inl = M.run_discrete(case, mon, modular=False)
    rep.update({"impl_modular": mod, "impl_inlined": inl, "model_prog": m})
    if inl[0] != "ok":
        return Violation("inlined specification raised %r on the %s monitor: %s" % (inl[1:], mon, rep["inlined"]), rep, stream="mod"), None
    if mod[0] != "ok":
        return Violation("modular specification raised %r on the %s monitor (the inlined one evaluates): %s"
                         % (mod[1:], mon, rep["spec"].replace("\n", " ")), rep, stream="mod"), None
    a, b = mod[1][0], inl[1][0]
    if disc.nontrivial(b):
        ctx.nontrivial.add((mon, rep["spec"], tuple((k, tuple(v)) for k, v in sorted(case["data"].items()))))
    if not same_vals(a, b):
        i = next((j for j in range(len(b)) if j >= len(a) or common.canon(a[j]) != common.canon(b[j])), len(b))
        return Violation("%s monitor: modular specification returns %r at step %d (%d values), its inlined form %r (%d values): %s"
                         % (mon, a[i] if i < len(a) else None, i, len(a), b[i] if i < len(b) else None, len(b),
                            rep["spec"].replace("\n", " ")), rep, stream="mod"), None
    if mon == "ond" and m is not None:
        if m[0] != "ok" or [r[-1] for r in m[1]] != a and not same_vals([r[-1] for r in m[1]], a):
            if any(x != x for x in a):
                ctx.skipped_undef += 1
                return None, None
            return None, Violation("mirror runProgram differs from the implementation: " + rep["spec"].replace("\n", " "), rep,
                                   failing_input=False, stream="mod/mirror")
    return None, None


def explore(ctx, rng, count):
    cases = []
    for _ in range(count):
        mon = rng.choice(["offd", "ond", "ond", "past"])
        c_ = M.gen_case(rng, ALLOW[mon], mon)
        if rng.random() < 0.2:
            # an interface-aware semantics (modular = inlined "for every monitor kind"): which variables a named sub-expression
            # mentions must not depend on how often and where it is referenced
            c_["ia"] = [rng.choice(["outRob", "inRob", "outVac", "inVac"]), {v: rng.choice(["input", "output"]) for v in c_["vars"]}]
        cases.append(c_)
    online = [c for c in cases if c["monitor"] == "ond" and not c.get("ia")]
    ms = dict(zip(map(id, online), M.model_prog(online)))
    for c in cases:
        ctx.evaluations += 1
        ctx.count("monitor:" + c["monitor"])
        if c.get("ia"):
            ctx.count("interface-aware:" + c["ia"][0])
        ctx.count("style:" + c["style"])
        ctx.count("subspecs=%d" % (len(c["defs"]) - 1))
        if c["consts"]:
            ctx.count("with-constants")
        v, d = check_case(ctx, c, ms.get(id(c)))
        if v is None and d is None:
            ctx.traces_validated += 1
            if len(ctx.samples) < 3 and len(c["defs"]) > 2:
                ctx.sample({"monitor": c["monitor"], "modular": M.spec_text(c), "inlined": "out = " + F.to_text(c["f"])})
        if v is not None:
            ctx.violations.append(v)
            if len(ctx.violations) >= 3:
                return
        if d is not None:
            ctx.diffs.append(d)


def alias_stream(ctx, rng, count, fixed=None):
    """The main assertion is just the NAME of a sub-specification (not necessarily the one defined last), or a name under one
    operator: modular vs inlined, offd / ond."""
    for _ in range(1 if fixed else count):
        if fixed:
            subs, main, mon, n, data = fixed["subs"], fixed["main"], fixed["monitor"], fixed["n"], fixed["data"]
        else:
            g = F.Gen(rng, ["a", "b"], F.PAST_ONLY - {"fn", "iffxor"}, max_bound=2)
            k = rng.choice([2, 2, 3])
            subs = [["p%d" % i, "(" + F.to_text(g.formula(rng.choice([0, 1, 2]))) + ")"] for i in range(k)]
            tgt = rng.choice(subs[:-1]) if rng.random() < 0.7 else subs[-1]
            main = rng.choice(["%s", "%s", "(%s)", "not(%s)", "once(%s)"]) % tgt[0]
            mon = rng.choice(["offd", "ond"])
            n = rng.randint(2, 8)
            data = F.gen_trace(rng, ["a", "b"], n)
        inl = main
        for nm, body in subs:
            inl = re.sub(r"\b%s\b" % nm, lambda _m, b=body: b, inl)

        def run(text, extra, sub_specs=()):
            def go():
                spec = impl.make_spec(mon, text, ["a", "b"], extra_decl=extra, sub_specs=list(sub_specs))
                spec.parse()
                if mon == "offd":
                    ds = {"time": list(range(n))}
                    ds.update({v: list(data[v]) for v in data})
                    return [p_[1] for p_ in spec.evaluate(ds)]
                return [spec.update(i, [(v, data[v][i]) for v in ("a", "b")]) for i in range(n)]
            return impl.guarded(go)
        names = [nm for nm, _ in subs]
        lines = ["%s = %s;" % (nm, body) for nm, body in subs]
        as_text = run("\n".join(lines) + "\nout = " + main, names)
        as_subs = run("out = " + main, names, sub_specs=lines)
        inlined = run("out = " + inl, [])
        rep = {"kind": "alias", "subs": subs, "main": main, "monitor": mon, "n": n, "data": data, "inlined": "out = " + inl,
               "impl_text": as_text, "impl_add_sub_spec": as_subs, "impl_inlined": inlined}
        ctx.evaluations += 1
        ctx.count("stream:alias")
        bad = None
        if inlined[0] == "ok":
            for what, o in (("one text", as_text), ("add_sub_spec", as_subs)):
                if o[0] != "ok" or not same_vals(o[1], inlined[1]):
                    bad = "%s monitor, %s: the modular specification gives %r, its inlined form %r" % (mon, what, o[1:], inlined[1])
                    break
        if bad:
            v = Violation("%s: %s; out = %s" % (bad, " ".join(lines), main), rep, stream="mod/alias")
            if fixed:
                return v
            ctx.violations.append(v)
            if len(ctx.violations) >= 3:
                return None
        else:
            ctx.traces_validated += 1
            ctx.nontrivial.add((str(subs), main, mon, str(data)))
    return None


def named_term_stream(ctx, rng, count, fixed=None):
    """A named ARITHMETIC sub-expression over variables of one interface class, referenced twice: once combined with a variable of
    the other class, once alone inside a predicate - under the interface-aware semantics (which variables a node mentions decides
    how a predicate is evaluated; it must not depend on the other references to the named expression).  Modular vs inlined."""
    from . import c06
    for _ in range(1 if fixed else count):
        if fixed:
            sub, main_m, main_i, sem, io, mon, n, data = (fixed[k] for k in ("sub", "main", "inlined", "semantics", "io", "monitor", "n", "data"))
        else:
            k1, k2 = rng.choice([1.0, 2.0, 0.5]), rng.choice([0.0, 1.0, 5.0])
            term = rng.choice(["(%s * x)" % k1, "(x + %s)" % k1, "(abs(x))", "(x - %s)" % k1])
            op = rng.choice(["+", "-", "*"])
            first = "((t %s y) >= %s)" % (op, k2) if rng.random() < 0.7 else "((y %s t) >= %s)" % (op, k2)
            second = rng.choice(["(once[0,1](t <= %s))", "(t <= %s)", "(historically(t >= %s))", "(not(t <= %s))"]) % rng.choice([0.0, 1.0, 5.0])
            comb = rng.choice(["and", "or"])
            body = "(%s %s %s)" % ((first, comb, second) if rng.random() < 0.7 else (second, comb, first))
            sub, main_m, main_i = "t = " + term, "out = " + body, "out = " + re.sub(r"\bt\b", lambda _m: term, body)
            sem = rng.choice(["outRob", "inRob", "outVac", "inVac"])
            io = {"x": "input", "y": "output"} if rng.random() < 0.5 else {"x": "output", "y": "input"}
            mon = rng.choice(["offd", "ond"])
            n = rng.randint(3, 7)
            data = {v: [rng.choice([-2.0, -1.0, 0.0, 1.0, 2.0, 3.0, 6.0]) for _ in range(n)] for v in ("x", "y")}

        def run(text, extra):
            def go():
                spec = impl.make_spec(mon, text, ["x", "y"], extra_decl=extra, semantics=c06.SEMS[sem], io=io)
                spec.parse()
                if mon == "offd":
                    ds = {"time": list(range(n))}
                    ds.update({v: list(data[v]) for v in data})
                    return [p_[1] for p_ in spec.evaluate(ds)]
                return [spec.update(i, [(v, data[v][i]) for v in ("x", "y")]) for i in range(n)]
            return impl.guarded(go)
        m_, i_ = run(sub + ";\n" + main_m, ["t"]), run(main_i, [])
        rep = {"kind": "named-term", "sub": sub, "main": main_m, "inlined": main_i, "semantics": sem, "io": io, "monitor": mon, "n": n,
               "data": data, "impl_modular": m_, "impl_inlined": i_}
        ctx.evaluations += 1
        ctx.count("stream:named-term/" + sem)
        bad = None
        if m_[0] != i_[0]:
            bad = "modular %r, inlined %r" % (m_[:2], i_[:2])
        elif m_[0] == "ok" and not same_vals(m_[1], i_[1]):
            bad = "the modular specification returns %r, its inlined form %r" % (m_[1], i_[1])
        if bad:
            v = Violation("%s monitor, %s semantics, io=%r: %s: %s; %s" % (mon, sem, io, bad, sub, main_m), rep, stream="mod/named-term")
            if fixed:
                return v
            ctx.violations.append(v)
            if len(ctx.violations) >= 3:
                return None
        else:
            ctx.traces_validated += 1
            ctx.nontrivial.add((sub, main_m, sem, str(io), str(data)))
    return None


def replay(ctx, obj):
    if obj.get("kind") == "alias":
        v = alias_stream(Ctx(ctx.id, ctx.tier, ctx.seed), None, 1, fixed=obj)
        return (v is None), (v.what if v else "modular and inlined specifications agree on the replayed case")
    if obj.get("kind") == "named-term":
        v = named_term_stream(Ctx(ctx.id, ctx.tier, ctx.seed), None, 1, fixed=obj)
        return (v is None), (v.what if v else "modular and inlined specifications agree on the replayed case")
    if obj.get("kind") == "twin-units":
        from . import c12
        return c12.replay_twin(ctx, obj, "C09")
    if obj.get("monitor") in ("offc", "onc"):
        from .. import dense
        return dense.replay_modular(ctx, obj)
    c = M.case_of_rep(obj)
    m = M.model_prog([c])[0] if c["monitor"] == "ond" and not c.get("ia") else None
    v, d = check_case(Ctx(ctx.id, ctx.tier, ctx.seed), c, m)
    return (v is None), (v.what if v else "modular and inlined specifications agree on the replayed case")


def run(ctx):
    explore(ctx, ctx.subrng("mod"), ctx.budget(900, 8000))
    if not ctx.violations:
        named_term_stream(ctx, ctx.subrng("named-term"), ctx.budget(150, 1000))
    if not ctx.violations:
        alias_stream(ctx, ctx.subrng("alias"), ctx.budget(100, 800))
    if not ctx.violations:
        try:
            from .. import dense
            dense.modular_stream(ctx)
        except ImportError:
            ctx.notes.append("dense-time modular stream not available yet")


def search(ctx):
    explore(ctx, ctx.subrng("search"), ctx.budget(800, 4000))
