"""C09 — modular specifications are equivalent to their inlined form.

Tie: stream `mod`.  A random formula is decomposed into named sub-specifications (multi-assertion text or
add_sub_spec), some referenced several times, literals replaced by declared constants; the modular
specification and the single inlined specification are evaluated by the same real monitor (discrete offline,
online for past formulas, pastified online for bounded-future formulas; dense: harness/dense.py) and must
return identical values; the online run is also compared with the Lean mirror of the
dictionary-and-memo interpreter (`runProgram`).
"""
from .. import common, formula as F, impl, disc, modular as M
from ..common import same_vals
from ..engine import Violation, Ctx

RULE = ("formulas of size>=4 (depth<=5) decomposed into 0-4 nested sub-specifications with 0-2 extra references, optional "
        "declared constants, rendered as multi-assertion text or through add_sub_spec; monitors offd/ond/past; traces 1..10. "
        "distinct by (modular text, data, monitor); non-trivial when the inlined result is not constant +-inf.")
EXPLANATION = ("theorems: C09_program_refines_trees (the dictionary-keyed, memoised, multi-assertion interpreter returns for every "
               "assertion and every operator sub-formula what its stand-alone monitor returns, whatever the sharing), "
               "C09_program_eq_rho (hence rho of the inlined formula). Correspondence: modular vs inlined on the real monitors; "
               "online modular run vs the mirror runProgram.")
ASSUMPTIONS = ["the parser substitutes the referenced node for a reference (validated: modular vs inlined results and spec_print)",
               "printed node names are injective on ASTs (the code keys operators by name, the model by formula)"]
TRUSTED_EXTRA = ["parser substitution of sub-specification references and constants: validated by correspondence only"]

ALLOW = {"offd": F.ALL_DISCRETE_OFFLINE - {"fn", "iffxor"}, "ond": F.PAST_ONLY - {"fn", "iffxor"},
         "past": {"arith", "cmp", "bool", "past", "bpast", "bfuture", "buntil", "bsince", "since", "not", "event"}}
REGIONS = {}


def check_case(ctx, case, m):
    mon = case["monitor"]
    rep = M.rep_of(case)
    mod = M.run_discrete(case, mon, modular=True)
    inl = M.run_discrete(case, mon, modular=False)
    rep.update({"impl_modular": mod, "impl_inlined": inl, "model_prog": m})
    if inl[0] != "ok":
        return Violation("inlined specification raised %r on the %s monitor: %s" % (inl[1:], mon, rep["inlined"]), rep, stream="mod"), None
    if mod[0] != "ok":
        return Violation("modular specification raised %r on the %s monitor (the inlined one evaluates): %s"
                         % (mod[1:], mon, rep["spec"].replace("\n", " ")), rep, stream="mod"), None
    a, b = mod[1][0], inl[1][0]
    if disc.nontrivial(b):
        ctx.nontrivial.add((mon, rep["spec"], tuple((k, tuple(v)) for k, v in sorted(case["data"].items()))))
    if not same_vals(a, b):
        i = next((j for j in range(len(b)) if j >= len(a) or common.canon(a[j]) != common.canon(b[j])), len(b))
        return Violation("%s monitor: modular specification returns %r at step %d (%d values), its inlined form %r (%d values): %s"
                         % (mon, a[i] if i < len(a) else None, i, len(a), b[i] if i < len(b) else None, len(b),
                            rep["spec"].replace("\n", " ")), rep, stream="mod"), None
    if mon == "ond" and m is not None:
        if m[0] != "ok" or [r[-1] for r in m[1]] != a and not same_vals([r[-1] for r in m[1]], a):
            if any(x != x for x in a):
                ctx.skipped_undef += 1
                return None, None
            return None, Violation("mirror runProgram differs from the implementation: " + rep["spec"].replace("\n", " "), rep,
                                   failing_input=False, stream="mod/mirror")
    return None, None


def explore(ctx, rng, count):
    cases = []
    for _ in range(count):
        mon = rng.choice(["offd", "ond", "ond", "past"])
        cases.append(M.gen_case(rng, ALLOW[mon], mon))
    online = [c for c in cases if c["monitor"] == "ond"]
    ms = dict(zip(map(id, online), M.model_prog(online)))
    for c in cases:
        ctx.evaluations += 1
        ctx.count("monitor:" + c["monitor"])
        ctx.count("style:" + c["style"])
        ctx.count("subspecs=%d" % (len(c["defs"]) - 1))
        if c["consts"]:
            ctx.count("with-constants")
        v, d = check_case(ctx, c, ms.get(id(c)))
        if v is None and d is None:
            ctx.traces_validated += 1
            if len(ctx.samples) < 3 and len(c["defs"]) > 2:
                ctx.sample({"monitor": c["monitor"], "modular": M.spec_text(c), "inlined": "out = " + F.to_text(c["f"])})
        if v is not None:
            ctx.violations.append(v)
            if len(ctx.violations) >= 3:
                return
        if d is not None:
            ctx.diffs.append(d)


def replay(ctx, obj):
    if obj.get("kind") == "twin-units":
        from . import c12
        return c12.replay_twin(ctx, obj, "C09")
    if obj.get("monitor") in ("offc", "onc"):
        from .. import dense
        return dense.replay_modular(ctx, obj)
    c = M.case_of_rep(obj)
    m = M.model_prog([c])[0] if c["monitor"] == "ond" else None
    v, d = check_case(Ctx(ctx.id, ctx.tier, ctx.seed), c, m)
    return (v is None), (v.what if v else "modular and inlined specifications agree on the replayed case")


def run(ctx):
    explore(ctx, ctx.subrng("mod"), ctx.budget(900, 8000))
    if not ctx.violations:
        try:
            from .. import dense
            dense.modular_stream(ctx)
        except ImportError:
            ctx.notes.append("dense-time modular stream not available yet")


def search(ctx):
    explore(ctx, ctx.subrng("search"), ctx.budget(800, 4000))
