"""A user-defined message type for specifications whose variables are objects read through a field (`x.value`)."""


class Msg(object):
    def __init__(self, value=0.0):
        self.value = value

    def __repr__(self):
        return "Msg(%r)" % (self.value,)
